#!/usr/bin/env python3
"""Regenerates /verif/MANIFEST.json from the table below (kept valid at all times)."""
import json
import os
import sys

VERIF = os.path.dirname(os.path.dirname(os.path.abspath(__file__)))
sys.path.insert(0, os.path.join(VERIF, "progs"))

TRUST = "std (core/alloc) as the oracle, rustc 1.95 / nightly 1.97 as installed, the harness's own model code; bounds as stated in evidence"

# id -> (technique, text, note, design_ref, engine)
CLAIMS = {
    "C02": (
        "differential testing vs std slice indexing: exhaustive small-bound enumeration + seeded proptest",
        "Every (length, index, index) combination over the stated index set (incl. usize::MAX neighbourhood, start>end) and five element types is compared, by address and length, with what std's get/get(range)/split_at/try_from/as_chunks return; _mut variants are additionally written through. Complete up to the bound, random (shrinking) beyond it. Exploration, not proof: nothing is claimed outside the explored index/length set.",
        TRUST,
        "DESIGN.md §3 C02",
        "harness/src/bin/c02.rs",
    ),
}

PENDING_REASON = "check not built yet in this session (planned in DESIGN.md §3); will be claimed once its engine exists and is silent on the unchanged tree"


def main():
    props = [json.loads(l)["id"] for l in open(os.path.join(VERIF, "properties.jsonl")) if l.strip()]
    checks = []
    na = []
    for pid in props:
        if pid in CLAIMS:
            tech, text, note, ref, engine = CLAIMS[pid]
            checks.append({
                "property_id": pid,
                "quick_cmd": "./check %s quick" % pid,
                "thorough_cmd": "./check %s thorough" % pid,
                "evidence_file": "/verif/evidence/%s.json" % pid,
                "replay_cmd_template": "./check %s quick --replay {path}" % pid,
                "engine": engine,
                "level_claimed": {"category": "exploration", "text": text, "design_ref": ref},
                "level_note": note,
                "technique": tech,
            })
        else:
            na.append({"property_id": pid, "reason": PENDING_REASON})
    man = {
        "version": 1,
        "setup_cmd": "./setup.sh",
        "hooks": {
            "guard": "rodrimati1992_konst_verif",
            "enable": "no hooks exist: every observable is public API, a panic, a drop or a compiler verdict; checks build /repo/konst as a cargo path dependency with features rust_1_83,alloc (thorough adds debug)",
            "baseline_off_cmd": "cd /repo && cargo test --workspace --no-fail-fast --offline",
            "source_commits": [],
            "add_only": True,
        },
        "engines": [
            {"name": "harness", "path": "/verif/harness", "serves_properties": sorted(CLAIMS),
             "kind_free_text": "Rust binaries (one per property) using proptest TestRunner + exhaustive enumerators, std as differential oracle"},
        ],
        "checks": checks,
        "notes": "All checks: exit 0 held / exit 1 + VIOLATION line / exit 2 infrastructure trouble. Known findings are in /verif/known_findings.txt.",
        "not_applicable": na,
    }
    with open(os.path.join(VERIF, "MANIFEST.json"), "w") as f:
        json.dump(man, f, indent=1)
        f.write("\n")
    print("claimed:", len(checks), "pending:", len(na))


if __name__ == "__main__":
    main()

#!/usr/bin/env python3
"""Regenerates /verif/MANIFEST.json from the table below (kept valid at all times)."""
import json
import os
import sys

VERIF = os.path.dirname(os.path.dirname(os.path.abspath(__file__)))
sys.path.insert(0, os.path.join(VERIF, "progs"))

TRUST = "std (core/alloc) as the oracle, rustc 1.95 / nightly 1.97 as installed, the harness's own model code; bounds as stated in evidence"

# id -> (technique, text, note, design_ref, engine)
def C(tech, text, ref, engine):
    return (tech, text + " Exploration, not proof: nothing is claimed outside the enumerated bounds and the sampled random cases; evidence reports measured counts.", TRUST, ref, engine)


CLAIMS = {
    "C02": C("differential testing vs std slice indexing: exhaustive small-bound enumeration + seeded proptest",
             "Every (length, index, index) combination over the stated index set (incl. the usize::MAX / isize::MAX neighbourhoods, start>end) and element types u8,u64,(),String,[u8;3],[u64;9], a 32-byte-aligned struct and huge ZSTs (lengths and const chunk sizes up to usize::MAX, chunk sizes odd / powers of two / even non-powers of two, lengths congruent to small values modulo 2^8/2^16/2^32) is compared by address and length with std's get/get(range)/split_at/try_from/as_chunks; _mut variants are written through and the written range checked.",
             "DESIGN.md §3 C02", "harness/src/bin/c02.rs"),
    "C03": C("differential testing vs std str indexing with expected-panic predicate: exhaustive enumeration + seeded proptest",
             "All strings up to 5-6 chars over one char of each UTF-8 length plus boundary scalars, x all byte indices (incl. beyond len, usize::MAX) x all pairs: fallible getters == str::get, boundary predicate == is_char_boundary, clamping variants return std's sub-string (by address) and panic exactly when an in-range index is inside a char.",
             "DESIGN.md §3 C03", "harness/src/bin/c03.rs"),
    "C04": C("differential testing vs naive search and str::find/rfind/split_once: exhaustive small-alphabet enumeration + seeded proptest",
             "All haystacks x needles over 2-3 symbol alphabets up to length 10/4 (every self-overlap structure of short needles), UTF-8 text incl. chars sharing lead bytes, through all four pattern kinds and all 18 search-derived functions; derived results compared by address.",
             "DESIGN.md §3 C04, §9.2", "harness/src/bin/c04.rs, progs/gen_deep.py"),
    "C05": C("differential testing vs std starts_with/strip_*/trim_ascii*/trim_*_matches: exhaustive enumeration + seeded proptest",
             "All inputs x patterns over small alphabets (incl. every ASCII whitespace/control byte class and all 256 byte values at the edges), all four pattern kinds; results compared by address with std; two-sided trim_matches with multi-char patterns must equal one of the two compositions of the one-sided std functions.",
             "DESIGN.md §3 C05, §9.2", "harness/src/bin/c05.rs, progs/gen_deep.py"),
    "C07": C("complete enumeration of char/u32 conversions + model-based history testing of chars/char_indices vs std",
             "Every char through encode_utf8 and every u32 < 0x120000 through from_u32 (complete), plus every upper half 0x12..=0xffff x 7 lower halves (quick) and all 2^32 u32 values (thorough, 16 threads); all strings up to 5-6 chars over one char per UTF-8 length x all front/back histories for chars/char_indices/their reversed types, as_str() compared by address after every step.",
             "DESIGN.md §3 C07, §9.7", "harness/src/bin/c07.rs, progs/gen_deep.py"),
    "C08": C("model-based history testing vs core::slice iterators: exhaustive (length,size,history) enumeration + seeded proptest",
             "All lengths 0..=11 x sizes 1..=12 x 8 iterator kinds x {fwd,rev,rev.rev} x {u16,()} x every front/back history run past exhaustion; items compared by address with std's iterator, as_slice()/remainder() after every step, copy() independence, size 0 panics; planted 40k/70k-element slices and sizes congruent to small values modulo 2^8/2^16; const evaluation of long iterations.",
             "DESIGN.md §3 C08, §9.7", "harness/src/bin/c08.rs, harness/fuzz/fuzz_targets/c08_iter.rs, progs/gen_deep.py"),
    "C09": C("model-based history testing vs core::ops range iterators: all u8/i8 pairs, boundary neighbourhoods of wider types, all histories of short ranges",
             "All 65536 (start,end) pairs of u8 and i8, boundary neighbourhoods of the 10 wider integer types and char (incl. the surrogate gap), a..b / a..=b / a.., stepped under fixed and random front/back histories through into_iter! (by value, by reference, rev, rev.rev) and for_each! (with rev()); in the release build `a..` is stepped 3 items past MAX (integers wrap like std; char is a listed finding).",
             "DESIGN.md §3 C09, §9.4", "harness/src/bin/c09.rs, harness/fuzz/fuzz_targets/c09_range.rs"),
    "C12": C("differential testing vs str::parse and a reference prefix scanner: exhaustive 8/16-bit values and short strings, boundary neighbourhoods, seeded proptest",
             "Every value of the 8/16-bit types in several spellings, all strings up to 4-5 symbols over {0,1,9,-,+,a,' ',non-ASCII digit} for all 12 integer types and bool, MIN/MAX +-12 neighbourhoods with extra digits/zeros/suffixes for all types (decimal-string arithmetic for 128-bit); whole-string and Parser prefix parsing incl. offsets and error position.",
             "DESIGN.md §3 C12, §9.2", "harness/src/bin/c12.rs, progs/gen_deep.py"),
    "C01": C("generated-input search with post-condition oracles (sub-range / UTF-8 / char-boundary / valid scalar) + the same corpus under Miri as UB observer",
             "A table of every safe public item that reaches an unsafe block (slice/str slicing, byte-pattern and str functions in all pattern kinds, split/chars/slice iterators, chr, CStr, maybe_uninit, manually_drop, ptr::nonnull, array/collect/from_iter/destructure macros, Parser) is driven with edge index sets (incl. usize::MAX), five element types (incl. ZST and Drop) and constructed UTF-8; every returned slice/str must lie inside its argument, be valid UTF-8 on char boundaries; unexpected panics and harness aborts caused by std's unsafe-precondition checks are violations; a compact corpus of the same calls runs under Miri, 600+ generated `const` items over 34 call templates (plus a pointer null-test family) are evaluated by rustc's const evaluator (UB = hard error) and compared with their run-time value, and the compile-fail engine contributes the acceptances that would make safe code unsound (Drop types with fields, references, lifetime laundering, unions).",
             "DESIGN.md §3 C01, §9.2", "harness/src/bin/c01.rs (+ Miri), harness/src/bin/c11.rs --property C01, progs/gen_const.py, progs/gen_closure_exits.py, progs/gen_destructure.py (packed structs under Miri), progs/gen_reject.py (G1, G2, G10, G11)"),
    "C06": C("model-based history testing vs str::split family: exhaustive strings x delimiters, all front/back histories for char delimiters",
             "All strings up to 7 chars over {a,b,é} x all &str delimiters up to 3 chars (incl. empty, overlapping) and char delimiters: split/rsplit/split_terminator/rsplit_terminator pieces compared by address with std step by step, remainder() after every step, rev() forms, every front/back interleaving of split/rsplit for char delimiters, and for &str delimiters (the empty one included) against a deque of std's pieces whenever split and rsplit decompose the string alike, with rev() of the rest after every step (defect F20).",
             "DESIGN.md §3 C06, §9.2", "harness/src/bin/c06.rs, progs/gen_deep.py"),
    "C10": C("differential testing of generated programs: typed chain grammar rendered as konst DSL and as the identical std chain, compared on enumerated inputs",
             "A committed pairwise corpus (every adapter x every consumer) plus seeded random chains (depth <= 5, 14 sources, 13 adapters, 13 consumers, all closure forms, eval!/for_each!, and a const-context collect_const! batch) are compiled against /repo and run on all small inputs; disagreements are attributed to a listed known finding only when the chain has its structural signature and matches that finding's alternative model (source-reversed std chain; std with take(n+1); std over `end..=end` for an exhausted RangeInclusive source; the konst chain with flat_map's parameter renamed; equality apart from the evaluation count of a function-valued argument expression). Closures also use a variable of the caller, fold/rfold also take a tuple accumulator destructured by the closure, function-path arguments are written as counted function-valued expressions.",
             "DESIGN.md §3 C10, §9.3.1, §9.4", "progs/gen_chain.py"),
    "C11": C("model-based testing of builder histories + generated hostile-closure programs + generated const collect_const! programs differential against std collect + Miri",
             "map!/map_!/from_fn!/from_fn_! vs std for N in 0..=6 and three element types (plus u128 and a 32-byte aligned Drop struct through builder, consumer, map_!, from_fn_!); all ArrayBuilder op sequences up to depth 6 against a model with a magic-stamped element type; 1100+ generated programs with every kind of early exit inside the closure at every element and every closure-parameter binding form (x, x: T, mut x, ref x, ref mut x with the closure changing its parameter), whose outcome must be compile error / panic / counted loop / left the macro / fully written std-equal array; 500 (thorough 4000) generated const collect_const! items over six item types compared with std collect; the calling crate shadows the assertion macros and has a trait in scope that gives array references a by-value `len` (defect F16); thorough reruns the first two under Miri.",
             "DESIGN.md §3 C11, §9.3 F8, §9.3.1 F16", "harness/src/bin/c11.rs, progs/gen_closure_exits.py, progs/gen_collect.py"),
    "C13": C("stateful (operation-history) testing of Parser against its own reported offsets: exhaustive depth 1-3 + seeded proptest histories",
             "Every Parser method with 11 pattern arguments is applied in all sequences of depth 1-2 (rich set) and depth 3 (reduced set) to ~270 originals and three base offsets, plus random histories to depth 12: after every Ok step remainder() must be original[start-base..end-base] on char boundaries nested in the previous range, after every Err the error offset/direction must name the start or end of the parser it was called on, the Display/Debug/panic renderings of the error must carry exactly those values, and user-made errors (ParseError::other_error / with_kind) must round-trip.",
             "DESIGN.md §3 C13/C14, §9.7", "harness/src/bin/c13.rs, harness/fuzz/fuzz_targets/c13_ops.rs, progs/gen_deep.py"),
    "C14": C("stateful differential testing of Parser operations against a std-string model, incl. whole split protocols",
             "The same histories as C13, but asserting the model: Ok/Err, yielded value and new remainder equal what strip/trim/find/split_once/integer-prefix functions compute from the previous remainder; split/rsplit/split_terminator/rsplit_terminator protocols over all strings up to 6 symbols x 7 delimiters run to their final error and compared with str::split/rsplit.",
             "DESIGN.md §3 C13/C14, §9.7", "harness/src/bin/c13.rs --property C14, harness/fuzz/fuzz_targets/c13_ops.rs, progs/gen_deep.py"),
    "C15": C("stateful testing with a drop ledger: exhaustive consumer/builder histories, generated destructure! programs, Miri",
             "All ArrayConsumer op sequences (next/next_back/as_slice/swap/clone/drop/assert_is_empty) up to depth 5-6 and ArrayBuilder sequences over a ledger-tracked Drop type, over-aligned element types (u128, 32-byte aligned Drop struct) through every builder fill level, map_!/from_fn_! with a closure panicking at every element, and 800+ generated destructure! programs (braced/tuple structs, tuples to 16, arrays with rest/..; packed, generic, ZST, nested fields; `_` positions) whose in-program ledger must show every id dropped exactly once, `_`-matched ids dropped right after the statement; thorough reruns under Miri.",
             "DESIGN.md §3 C15, §9.2", "harness/src/bin/c11.rs --property C15, progs/gen_destructure.py (+ a Miri batch of packed structs in the quick tier)"),
    "C17": C("generated compile-fail programs with minimally different controls; rustc verdicts as oracle",
             "Eleven guard families (1370+ programs; G3/G4/G8/G9 also inside a calling crate that defines its own compile_error!, G8 with range patterns that begin with a literal and non-literals forwarded as expr / pat / tt fragments, G2 with patterns without fields or elements; G11 (unions) is run for C01; incl. lifetime laundering through destructure! bindings - by-value fields, rest @ .. sub-arrays, nested patterns - which is how defect F9 was found): each invalid invocation must be rejected by rustc and its control (offending element removed) must compile; each program is compiled alone against the konst rlib built from /repo. A failing control is a harness error (exit 2), never a violation.",
             "DESIGN.md §3 C17, §9.3 F9, §9.3.1 F13-F15, §9.4", "progs/gen_reject.py"),
    "C18": C("differential testing of generated parser_method! programs against a reference using the same literal tokens in expression position",
             "600+ generated literal sets (all escape kinds, line continuations, raw strings, concat!, related alternatives) for the six forms, each run on every string up to 3 chars over the literals' alphabet + concatenations through two parser constructions; branch, remainder and offsets must equal the reference; literals that rustc accepts but the macro rejects are violations too; branch bodies in every syntactic form (block, bare expression, call, nested macro, trailing comma or not), literals forwarded through caller macro_rules! as literal/expr/tt fragments, a calling crate that shadows assert!/unreachable! and defines constants named like the macro helper items, whole `a | b` lists forwarded as one `pat` fragment, `\\u{..}` escapes with `_` separators, and 30% of the match-form programs inside the caller's own loop with branch bodies that continue / break (plain or labelled) / return / fall through, compared with the same loop around the reference (defects F10-F12).",
             "DESIGN.md §3 C18, §9.3.1", "progs/gen_parser_method.py"),
    "C19": C("differential testing vs std Option/Result/cmp functions with call counters + generated rebind programs with rustc verdicts",
             "Every option::/result:: macro in every argument form on both variants and boundary payloads with fallback call counts, try_!/try_opt! vs `?`, min/max families on keyed values with identity tags; try_rebind!/rebind_if_ok! for every arity 1..=6 and position kind (complete to arity 3) compiled alone (must compile) and compared with a hand-written match on Ok and Err inputs (evaluation counts of the operand included; typed, mut, ref and coercion-site let forms); every macro argument is an effectful expression whose evaluation count and order must equal the std call (defect F19: max_by_key!); function-valued argument expressions are counted too (listed finding).",
             "DESIGN.md §3 C19", "harness/src/bin/c19.rs, progs/gen_rebind.py"),
    "C20": C("complete enumeration of CStr inputs vs core::ffi::CStr + generated const programs for the concat/join macros vs std",
             "All byte strings up to length 7 over {0,'a',0xFF} and up to 5 over a UTF-8-relevant alphabet for the CStr constructors/views; 800+ generated const items for str_concat!/str_join!/string::from_iter!/slice_concat! (all argument forms, empty lists/pieces, multi-byte separators, the first/last scalar of every UTF-8 length in every char/str element and separator position) compared with concat/join/collect at run time; a quarter of the programs have a caller module named `core`, element types mention caller constants named like the macros' items, and total lengths that overflow usize must be rejected in both profiles (defects F21-F23).",
             "DESIGN.md §3 C20, §9.2, §9.3.1", "harness/src/bin/c20.rs, progs/gen_concat.py, progs/gen_deep.py"),
    "C16": C("differential testing vs PartialEq/Ord on boundary-value tables: all pairs, all Option combinations, all triples for the order laws",
             "Every public eq_*/cmp_* function (14 scalar types, their slices, Option variants, NonZero, ranges, Ordering, str, &[&str], &[&[u8]]) and const_eq!/const_cmp!/const_eq_for!/const_cmp_for!/assertc_* forms over all pairs of boundary values and all pairs of slices of length <= 3, plus antisymmetry/transitivity over all triples; assertc_eq!/assertc_ne! with effectful operands (each evaluated once, the compared value is that evaluation's); range bounds congruent modulo 2^8..2^64 and RangeInclusive operands iterated to exhaustion (listed finding).",
             "DESIGN.md §3 C16, §9.2, §9.3.1 F18, §9.4", "harness/src/bin/c16.rs, harness/fuzz/fuzz_targets/c16_cmp.rs, progs/gen_deep.py"),
}

PENDING_REASON = "check not built yet in this session (planned in DESIGN.md §3); will be claimed once its engine exists and is silent on the unchanged tree"


def main():
    props = [json.loads(l)["id"] for l in open(os.path.join(VERIF, "properties.jsonl")) if l.strip()]
    checks = []
    na = []
    for pid in props:
        if pid in CLAIMS:
            tech, text, note, ref, engine = CLAIMS[pid]
            checks.append({
                "property_id": pid,
                "quick_cmd": "./check %s quick" % pid,
                "thorough_cmd": "./check %s thorough" % pid,
                "evidence_file": "/verif/evidence/%s.json" % pid,
                "replay_cmd_template": "./check %s quick --replay {path}" % pid,
                "engine": engine,
                "level_claimed": {"category": "exploration", "text": text, "design_ref": ref},
                "level_note": note,
                "technique": tech,
            })
        else:
            na.append({"property_id": pid, "reason": PENDING_REASON})
    man = {
        "version": 1,
        "setup_cmd": "./setup.sh",
        "hooks": {
            "guard": "rodrimati1992_konst_verif",
            "enable": "no hooks exist: every observable is public API, a panic, a drop or a compiler verdict; checks build /repo/konst as a cargo path dependency with features rust_1_83,alloc (thorough adds debug)",
            "baseline_off_cmd": "cd /repo && cargo test --workspace --no-fail-fast --offline",
            "source_commits": [],
            "add_only": True,
        },
        "engines": [
            {"name": "harness", "path": "/verif/harness", "serves_properties": ["C01", "C02", "C03", "C04", "C05", "C06", "C07", "C08", "C09", "C11", "C12", "C13", "C14", "C15", "C16", "C19", "C20"],
             "kind_free_text": "Rust binaries (one per property) using proptest TestRunner + exhaustive enumerators, std or a small model as oracle; c01/c11 also run under Miri"},
            {"name": "progs", "path": "/verif/progs", "serves_properties": ["C01", "C10", "C11", "C15", "C17", "C18", "C19", "C20"],
             "kind_free_text": "python3 grammar-based program generators + driver: generated Rust is compiled from /repo's tree by cargo/rustc and executed (or must fail to compile); descriptors shrink by batch delta debugging"},
        ],
        "checks": checks,
        "notes": "All checks: exit 0 held / exit 1 + VIOLATION line / exit 2 infrastructure trouble. Known findings are in /verif/known_findings.txt. Every in-process engine runs in two builds in both tiers (dev: debug assertions + overflow checks; release: neither), on a 2 MiB thread stack; the program engines have the same two profiles. Beyond their exhaustive bounds all engines share the planted families described in DESIGN.md 9.7 (single-point differences on long inputs, inputs longer than 2^16, indices / lengths / sizes congruent to small values modulo 2^8, 2^16, 2^32, one char per UTF-8 lead byte, chars differing in one encoded byte, NUL, effectful macro arguments, caller constants named like the macros' helper items, const evaluation of long inputs). tools/run_all.sh <quick|thorough> runs every check in turn; the last full thorough run on the repaired tree (/repo a131c22, /verif c07e5d8) took 92 min and was silent (all 20 exit 0). Every generated program - batched or compiled alone - sits in a hostile calling crate (shadowed assert!/debug_assert!/assert_eq!/assert_ne!/unreachable!, root modules named core and std, constants named like the macros' helper items; compile-fail programs also with a caller-defined compile_error!, array-macro programs with a trait that gives array references a by-value len). 22 genuine defects were found by the checks and repaired with fix: commits in /repo, 12 more are listed as known findings with alternative models (known_findings.txt, DESIGN.md 9.3, 9.3.1, 9.4).",
        "not_applicable": na,
    }
    with open(os.path.join(VERIF, "MANIFEST.json"), "w") as f:
        json.dump(man, f, indent=1)
        f.write("\n")
    print("claimed:", len(checks), "pending:", len(na))


if __name__ == "__main__":
    main()

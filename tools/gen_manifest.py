#!/usr/bin/env python3
"""Regenerates /verif/MANIFEST.json from the table below (kept valid at all times)."""
import json
import os
import sys

VERIF = os.path.dirname(os.path.dirname(os.path.abspath(__file__)))
sys.path.insert(0, os.path.join(VERIF, "progs"))

TRUST = "std (core/alloc) as the oracle, rustc 1.95 / nightly 1.97 as installed, the harness's own model code; bounds as stated in evidence"

# id -> (technique, text, note, design_ref, engine)
def C(tech, text, ref, engine):
    return (tech, text + " Exploration, not proof: nothing is claimed outside the enumerated bounds and the sampled random cases; evidence reports measured counts.", TRUST, ref, engine)


CLAIMS = {
    "C02": C("differential testing vs std slice indexing: exhaustive small-bound enumeration + seeded proptest",
             "Every (length, index, index) combination over the stated index set (incl. the usize::MAX / isize::MAX neighbourhoods, start>end) and five element types (u8,u64,(),String,[u8;3]) is compared by address and length with std's get/get(range)/split_at/try_from/as_chunks; _mut variants are written through and the written range checked.",
             "DESIGN.md §3 C02", "harness/src/bin/c02.rs"),
    "C03": C("differential testing vs std str indexing with expected-panic predicate: exhaustive enumeration + seeded proptest",
             "All strings up to 5-6 chars over one char of each UTF-8 length plus boundary scalars, x all byte indices (incl. beyond len, usize::MAX) x all pairs: fallible getters == str::get, boundary predicate == is_char_boundary, clamping variants return std's sub-string (by address) and panic exactly when an in-range index is inside a char.",
             "DESIGN.md §3 C03", "harness/src/bin/c03.rs"),
    "C04": C("differential testing vs naive search and str::find/rfind/split_once: exhaustive small-alphabet enumeration + seeded proptest",
             "All haystacks x needles over 2-3 symbol alphabets up to length 10/4 (every self-overlap structure of short needles), UTF-8 text incl. chars sharing lead bytes, through all four pattern kinds and all 18 search-derived functions; derived results compared by address.",
             "DESIGN.md §3 C04", "harness/src/bin/c04.rs"),
    "C05": C("differential testing vs std starts_with/strip_*/trim_ascii*/trim_*_matches: exhaustive enumeration + seeded proptest",
             "All inputs x patterns over small alphabets (incl. every ASCII whitespace/control byte class and all 256 byte values at the edges), all four pattern kinds; results compared by address with std; two-sided trim_matches with multi-char patterns must equal one of the two compositions of the one-sided std functions.",
             "DESIGN.md §3 C05", "harness/src/bin/c05.rs"),
    "C07": C("complete enumeration of char/u32 conversions + model-based history testing of chars/char_indices vs std",
             "Every char through encode_utf8 and every u32 < 0x120000 through from_u32 (complete); all strings up to 5-6 chars over one char per UTF-8 length x all front/back histories for chars/char_indices/their reversed types, as_str() compared by address after every step.",
             "DESIGN.md §3 C07", "harness/src/bin/c07.rs"),
    "C08": C("model-based history testing vs core::slice iterators: exhaustive (length,size,history) enumeration + seeded proptest",
             "All lengths 0..=11 x sizes 1..=12 x 8 iterator kinds x {fwd,rev,rev.rev} x {u16,()} x every front/back history run past exhaustion; items compared by address with std's iterator, as_slice()/remainder() after every step, copy() independence, size 0 panics.",
             "DESIGN.md §3 C08", "harness/src/bin/c08.rs"),
    "C09": C("model-based history testing vs core::ops range iterators: all u8/i8 pairs, boundary neighbourhoods of wider types, all histories of short ranges",
             "All 65536 (start,end) pairs of u8 and i8, boundary neighbourhoods of the 10 wider integer types and char (incl. the surrogate gap), a..b / a..=b / a.., stepped under fixed and random front/back histories through into_iter! (by value, by reference, rev, rev.rev) and for_each! (with rev()).",
             "DESIGN.md §3 C09", "harness/src/bin/c09.rs"),
    "C12": C("differential testing vs str::parse and a reference prefix scanner: exhaustive 8/16-bit values and short strings, boundary neighbourhoods, seeded proptest",
             "Every value of the 8/16-bit types in several spellings, all strings up to 4-5 symbols over {0,1,9,-,+,a,' ',non-ASCII digit} for all 12 integer types and bool, MIN/MAX +-12 neighbourhoods with extra digits/zeros/suffixes for all types (decimal-string arithmetic for 128-bit); whole-string and Parser prefix parsing incl. offsets and error position.",
             "DESIGN.md §3 C12", "harness/src/bin/c12.rs"),
    "C16": C("differential testing vs PartialEq/Ord on boundary-value tables: all pairs, all Option combinations, all triples for the order laws",
             "Every public eq_*/cmp_* function (14 scalar types, their slices, Option variants, NonZero, ranges, Ordering, str, &[&str], &[&[u8]]) and const_eq!/const_cmp!/const_eq_for!/const_cmp_for!/assertc_* forms over all pairs of boundary values and all pairs of slices of length <= 3, plus antisymmetry/transitivity over all triples.",
             "DESIGN.md §3 C16", "harness/src/bin/c16.rs"),
}

PENDING_REASON = "check not built yet in this session (planned in DESIGN.md §3); will be claimed once its engine exists and is silent on the unchanged tree"


def main():
    props = [json.loads(l)["id"] for l in open(os.path.join(VERIF, "properties.jsonl")) if l.strip()]
    checks = []
    na = []
    for pid in props:
        if pid in CLAIMS:
            tech, text, note, ref, engine = CLAIMS[pid]
            checks.append({
                "property_id": pid,
                "quick_cmd": "./check %s quick" % pid,
                "thorough_cmd": "./check %s thorough" % pid,
                "evidence_file": "/verif/evidence/%s.json" % pid,
                "replay_cmd_template": "./check %s quick --replay {path}" % pid,
                "engine": engine,
                "level_claimed": {"category": "exploration", "text": text, "design_ref": ref},
                "level_note": note,
                "technique": tech,
            })
        else:
            na.append({"property_id": pid, "reason": PENDING_REASON})
    man = {
        "version": 1,
        "setup_cmd": "./setup.sh",
        "hooks": {
            "guard": "rodrimati1992_konst_verif",
            "enable": "no hooks exist: every observable is public API, a panic, a drop or a compiler verdict; checks build /repo/konst as a cargo path dependency with features rust_1_83,alloc (thorough adds debug)",
            "baseline_off_cmd": "cd /repo && cargo test --workspace --no-fail-fast --offline",
            "source_commits": [],
            "add_only": True,
        },
        "engines": [
            {"name": "harness", "path": "/verif/harness", "serves_properties": sorted(CLAIMS),
             "kind_free_text": "Rust binaries (one per property) using proptest TestRunner + exhaustive enumerators, std as differential oracle"},
        ],
        "checks": checks,
        "notes": "All checks: exit 0 held / exit 1 + VIOLATION line / exit 2 infrastructure trouble. Known findings are in /verif/known_findings.txt.",
        "not_applicable": na,
    }
    with open(os.path.join(VERIF, "MANIFEST.json"), "w") as f:
        json.dump(man, f, indent=1)
        f.write("\n")
    print("claimed:", len(checks), "pending:", len(na))


if __name__ == "__main__":
    main()

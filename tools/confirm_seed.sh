#!/bin/bash
# usage: confirm_seed.sh <prop-id> [name]   — confirms a sub-agent's seeded change in ITS scratch worktree
# (/tmp/mut/<name>), then runs our check against it by applying the patch to /repo and reverting.
# Writes /verif/seeded/<name>/{patch.diff,demo.rs,notes.md,meta.json}.
set -u
prop=$1; name=${2:-$1}
wt=/tmp/mut/$name
out=$wt/_out
export CARGO_NET_OFFLINE=true
[ -f "$out/patch.diff" ] || { echo "no patch.diff in $out"; exit 2; }
cd "$wt" || exit 2
rm -f konst/tests/seeded_demo.rs
# 1. clean tree + patch applies
git checkout -q -- . 2>/dev/null
git apply --check "$out/patch.diff" || { echo "PATCH DOES NOT APPLY"; exit 3; }
demo_cmd="cargo test --offline ${DEMO_FLAGS:-} -p konst --features rust_1_83,alloc --test seeded_demo"
has_demo=0
if [ -f "$out/demo.rs" ]; then has_demo=1; fi
run_demo() { cp "$out/demo.rs" konst/tests/seeded_demo.rs; $demo_cmd > "$1" 2>&1; rc=$?; rm -f konst/tests/seeded_demo.rs; return $rc; }
if [ $has_demo = 1 ]; then
  run_demo /tmp/mut/$name.demo_clean.log; clean_rc=$?
else clean_rc=-1; fi
# 2. with the patch
git apply "$out/patch.diff"
if [ $has_demo = 1 ]; then
  run_demo /tmp/mut/$name.demo_patched.log; patched_rc=$?
else patched_rc=-1; fi
cargo test --workspace --no-fail-fast --offline > /tmp/mut/$name.suite.log 2>&1
passed=$(grep -E "^test result" /tmp/mut/$name.suite.log | awk '{s+=$4} END {print s}')
failed=$(grep -E "^test result" /tmp/mut/$name.suite.log | awk '{s+=$6} END {print s}')
failing_names=$(grep -E "^test .* FAILED$" /tmp/mut/$name.suite.log | sort | tr '\n' ';')
git checkout -q -- .
echo "demo on clean tree rc=$clean_rc (want 0); demo with patch rc=$patched_rc (want !=0); suite with patch: passed=$passed failed=$failed [$failing_names]"
# 3. our checks against it (CHECKS=none: only the worktree confirmation)
if [ "${CHECKS:-}" = "none" ]; then
  mkdir -p /verif/seeded/$name; cp "$out/patch.diff" /verif/seeded/$name/patch.diff
  [ -f "$out/demo.rs" ] && cp "$out/demo.rs" /verif/seeded/$name/demo.rs
  [ -f "$out/notes.md" ] && cp "$out/notes.md" /verif/seeded/$name/notes.md
  echo "$clean_rc $patched_rc $passed $failed" > /verif/seeded/$name/.confirm
  exit 0
fi
cd /repo || exit 2
if ! git diff --quiet; then echo "/repo dirty, refusing"; exit 2; fi
git apply "$out/patch.diff" || { echo "patch does not apply to /repo"; exit 3; }
cd /verif
results=""
for p in $(echo "${CHECKS:-$prop}"); do
  ./check "$p" quick > /tmp/mut/$name.check_$p.log 2>&1; rc=$?
  results="$results $p:quick=$rc"
  if [ $rc = 0 ] && [ "${THOROUGH:-0}" = 1 ]; then ./check "$p" thorough > /tmp/mut/$name.check_${p}_thorough.log 2>&1; results="$results $p:thorough=$?"; fi
done
git -C /repo checkout -- .
echo "checks:$results"
grep -h "VIOLATION\|check=" /tmp/mut/$name.check_*.log | head -6
mkdir -p /verif/seeded/$name
cp "$out/patch.diff" /verif/seeded/$name/patch.diff
[ -f "$out/demo.rs" ] && cp "$out/demo.rs" /verif/seeded/$name/demo.rs
[ -f "$out/notes.md" ] && cp "$out/notes.md" /verif/seeded/$name/notes.md
for f in "$out"/*; do case "$f" in *.log|*/patch.diff|*/demo.rs|*/notes.md) ;; *) [ -f "$f" ] && cp "$f" /verif/seeded/$name/ ;; esac; done
python3 - "$prop" "$name" "$clean_rc" "$patched_rc" "$passed" "$failed" "$failing_names" "$results" <<'EOF'
import json, sys, os
prop, name, clean_rc, patched_rc, passed, failed, failing, results = sys.argv[1:9]
meta = {
  "property": prop,
  "source": "independent sub-agent given only the property text and a scratch worktree of /repo (HEAD incl. fix commits)",
  "confirmed": {
    "patch_applies_to_repo_head": True,
    "demo_passes_on_unchanged_tree": clean_rc == "0",
    "demo_fails_with_patch": patched_rc not in ("0", "-1"),
    "existing_suite_with_patch": {"passed": int(passed or 0), "failed": int(failed or 0), "failing": failing, "baseline": "247 unit/integration passed + 281 doctests, 3 known failures (priv_string_tests::invalid_*)"},
  },
  "ran": ["tools/confirm_seed.sh %s %s" % (prop, name), "demo: cargo test --offline %s -p konst --features rust_1_83,alloc --test seeded_demo (demo.rs copied to konst/tests/seeded_demo.rs)" % os.environ.get("DEMO_FLAGS", ""),
          "git -C /repo apply seeded/%s/patch.diff; ./check <id> quick; git -C /repo checkout -- ." % name],
  "our_checks": results.strip(),
}
p = "/verif/seeded/%s/meta.json" % name
old = {}
if os.path.exists(p):
    try: old = json.load(open(p))
    except Exception: pass
old.update(meta)
json.dump(old, open(p, "w"), indent=1)
print(json.dumps(meta["confirmed"]))
EOF

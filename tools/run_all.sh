#!/bin/bash
# usage: tools/run_all.sh [quick|thorough]  — every check in turn on /repo's current tree; one line each
tier=${1:-quick}
cd "$(dirname "$0")/.."
mkdir -p work replays evidence
fail=0
for i in $(seq -w 1 20); do
  id=C$i
  t0=$(date +%s)
  ./check $id $tier > work/run_all_$id.log 2>&1; rc=$?
  echo "$id $tier exit=$rc $(( $(date +%s) - t0 ))s $(grep -c '^VIOLATION' work/run_all_$id.log) violation line(s) $(grep -c '^KNOWN-FINDING' work/run_all_$id.log) known"
  [ $rc != 0 ] && fail=1
done
exit $fail

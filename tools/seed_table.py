#!/usr/bin/env python3
"""Prints the markdown table of seeded changes (from seeded/*/meta.json) and refreshes it in DESIGN.md
between the markers <!-- SEED-TABLE-BEGIN --> / <!-- SEED-TABLE-END -->."""
import json, os, sys
V = os.path.dirname(os.path.dirname(os.path.abspath(__file__)))
rows = ["| seed | property | needs, in order to manifest | first run of our check | now reported by |", "|---|---|---|---|---|"]
n = missed = 0
for name in sorted(os.listdir(os.path.join(V, "seeded"))):
    p = os.path.join(V, "seeded", name, "meta.json")
    if not os.path.exists(p):
        continue
    m = json.load(open(p))
    h = m.get("history", "")
    first = "caught"
    if "MISSED" in h or "could not have" in h:
        first = "**missed**, check strengthened"
    elif "exited 2" in h:
        first = "exit 2 (engine fixed)"
    n += 1
    missed += first != "caught"
    rows.append("| %s | %s | %s | %s | %s |" % (name, m["property"], m.get("needs_to_manifest", "").replace("|", "\\|"), first, m.get("our_checks", "")))
table = "\n".join(rows) + "\n\n%d seeded changes, %d of them not reported by the version of the checks that existed when the seed arrived.\n" % (n, missed)
d = os.path.join(V, "DESIGN.md")
s = open(d).read()
b, e = "<!-- SEED-TABLE-BEGIN -->", "<!-- SEED-TABLE-END -->"
if b in s:
    s = s[:s.index(b) + len(b)] + "\n" + table + s[s.index(e):]
    open(d, "w").write(s)
print(table)

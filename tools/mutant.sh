#!/bin/bash
# usage: mutant.sh <prop> <file-relative-to-/repo> <perl-substitution> [tier]
# applies a one-off mutation to /repo, runs the check, always reverts.
set -u
prop=$1; file=$2; expr=$3; tier=${4:-quick}
cd /repo || exit 2
if ! git diff --quiet; then echo "repo dirty, refusing"; exit 2; fi
perl -0pi -e "$expr" "$file"
if git diff --quiet; then echo "MUTATION DID NOT APPLY"; exit 3; fi
git --no-pager diff --stat | tail -1
cd /verif && ./check "$prop" "$tier" 2>&1 | grep -a -E "VIOLATION|check=|exited|error(\[|:)|evaluations=" | head -${LINES_MAX:-8}
rc=${PIPESTATUS[0]}
git -C /repo checkout -- .
echo "exit=$rc"

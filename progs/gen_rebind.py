"""C19 (program half): try_rebind! / rebind_if_ok! for every arity 1..=6 and every kind of position,
against a hand-written match; rustc's verdict decides "every arity compiles"."""
import itertools
import json
import random
import time

import driver

ENGINE = "gen_rebind"

RULE = ("programs = try_rebind!{pattern = expr} and rebind_if_ok!{pattern = expr => code} with an Ok payload that is a single "
        "value or a tuple of 2..=6 components, every position being an existing place (local, struct field, array index), "
        "`let x`, `let x: T` (restating the type, and as a coercion site `&[u8; 4]` -> `&[u8]`), `let (a, b)`, `let mut x`, `let ref x`, `_` or `_: T` - complete for arity <= 3, seeded sample for 4..=6 - each run on an Ok "
        "and an Err input; oracle = a hand-written `match` in the same program (assign every component in order, leave every "
        "place untouched on Err, propagate the error for try_rebind!), compared on a snapshot of all places and bindings and of an evaluation counter inside the right-hand expression (evaluated exactly once); "
        "every program is first compiled alone: a pattern of any arity 1..=6 that does not compile while its hand-written "
        "twin does is a violation; non-trivial = arity >= 3 or mixed position kinds, counted per distinct program")

KINDS = ["local", "field", "index", "let", "let_typed", "let_coerce", "let_tuple", "let_mut", "let_ref", "wild", "wild_typed"]


def component(kind, i):
    """returns (pattern text, component type, oracle statement given value expr, names to snapshot)"""
    if kind == "local":
        return "a%d" % i, "i32", "a%d = {v};" % i, []
    if kind == "field":
        return "st.f%d" % (i % 2), "i32", "st.f%d = {v};" % (i % 2), []
    if kind == "index":
        return "arr[%d]" % (i % 3), "i32", "arr[%d] = {v};" % (i % 3), []
    if kind == "let":
        return "let x%d" % i, "i32", "let x%d = {v};" % i, ["x%d" % i]
    if kind == "let_typed":
        return "let x%d: i32" % i, "i32", "let x%d: i32 = {v};" % i, ["x%d" % i]
    if kind == "let_coerce":
        # the annotation is a coercion site (&[u8; 4] -> &[u8]): dropping it changes the binding's type, which the
        # snapshot sees through size_of_val
        return ("let x%d: &[u8]" % i, "&'static [u8; 4]", "let x%d: &[u8] = {v};" % i, ["(std::mem::size_of_val(&x%d), x%d)" % (i, i)])
    if kind == "let_tuple":
        return "let (p%d, q%d)" % (i, i), "(i32, i32)", "let (p%d, q%d) = {v};" % (i, i), ["p%d" % i, "q%d" % i]
    if kind == "let_mut":
        return "let mut x%d" % i, "i32", "let mut x%d = {v};" % i, ["x%d" % i]
    if kind == "let_ref":
        return "let ref x%d" % i, "i32", "let ref x%d = {v};" % i, ["x%d" % i]
    if kind == "wild":
        return "_", "i32", "let _ = {v};", []
    if kind == "wild_typed":
        return "_: i32", "i32", "let _: i32 = {v};", []
    raise ValueError(kind)


def render(i, macro, kinds):
    n = len(kinds)
    comps = [component(k, j) for j, k in enumerate(kinds)]
    types = [c[1] for c in comps]
    if n == 1:
        # a single (non-tuple) payload: the pattern is one token tree, so anything but a plain
        # identifier is parenthesised; the whole Ok value is bound / assigned
        payload_ty = types[0]
        pat = comps[0][0] if (kinds[0] == "local" and i % 2 == 0) else "(%s)" % comps[0][0]
        tuple_payload = False
    else:
        payload_ty = "(%s)" % ", ".join(types)
        pat = "(%s)" % ", ".join(c[0] for c in comps)
        tuple_payload = True
    snap_names = ["a%d" % j for j in range(6)] + ["st.f0", "st.f1", "arr[0]", "arr[1]", "arr[2]", "evals.get()"]
    lets = [nm for c in comps for nm in c[3]]
    pre = ("    let evals = std::cell::Cell::new(0u32);\n    let (mut a0, mut a1, mut a2, mut a3, mut a4, mut a5) = (100, 101, 102, 103, 104, 105);\n"
           "    let mut st = St { f0: 200, f1: 201 };\n    let mut arr = [300, 301, 302];\n")
    snap = "format!(\"{:?}\", (%s))" % ", ".join("(%s)" % ", ".join(chunk) for chunk in [snap_names[:6], snap_names[6:]])
    snap_in = "format!(\"{:?} {:?}\", (%s), (%s,))" % (", ".join("(%s)" % ", ".join(chunk) for chunk in [snap_names[:6], snap_names[6:]]),
                                                     ", ".join(lets) if lets else "0")
    if tuple_payload:
        oracle_assign = " ".join(c[2].format(v="t.%d" % j) for j, c in enumerate(comps))
    else:
        oracle_assign = comps[0][2].format(v="t")
    if macro == "try_rebind":
        k = ("fn k_%d(input: Result<%s, i32>) -> Result<String, i32> {\n%s    konst::try_rebind!{%s = { evals.set(evals.get() + 1); input }}\n    Ok(%s)\n}" %
             (i, payload_ty, pre, pat, snap_in))
        o = ("fn o_%d(input: Result<%s, i32>) -> Result<String, i32> {\n%s    let t = match { evals.set(evals.get() + 1); input } { Ok(t) => t, Err(e) => return Err(e) };\n    %s\n    Ok(%s)\n}" %
             (i, payload_ty, pre, oracle_assign, snap_in))
    else:
        k = ("fn k_%d(input: Result<%s, i32>) -> Result<String, i32> {\n%s    let mut inner = String::from(\"<not run>\");\n    konst::rebind_if_ok!{%s = { evals.set(evals.get() + 1); input } =>\n        inner = %s;\n    }\n    Ok(format!(\"{} | {}\", inner, %s))\n}" %
             (i, payload_ty, pre, pat, snap_in, snap))
        o = ("fn o_%d(input: Result<%s, i32>) -> Result<String, i32> {\n%s    let mut inner = String::from(\"<not run>\");\n    if let Ok(t) = { evals.set(evals.get() + 1); input } {\n        %s\n        inner = %s;\n    }\n    Ok(format!(\"{} | {}\", inner, %s))\n}" %
             (i, payload_ty, pre, oracle_assign, snap_in, snap))
    # the Ok input value: distinct numbers per component
    vals = []
    for j, t in enumerate(types):
        if t.startswith("&"):
            vals.append("&[%du8, 2, 3, 4]" % (j + 1))
        else:
            vals.append("(%d, %d)" % (1000 + 10 * j, 1001 + 10 * j) if t.startswith("(") else str(1000 + 10 * j))
    if tuple_payload:
        okv = "(%s%s)" % (", ".join(vals), "," if n == 1 else "")
    else:
        okv = vals[0]
    return k, o, payload_ty, okv


HEAD = "#![allow(unused, clippy::all)]\n#[derive(Debug)]\nstruct St { f0: i32, f1: i32 }\n"


def programs(seed, tier):
    rng = random.Random(seed * 131 + 19)
    out = []
    for macro in ("try_rebind", "rebind_if_ok"):
        for n in (1, 2, 3):
            for kinds in itertools.product(KINDS, repeat=n):
                if n == 3 and tier == "quick" and rng.random() > 0.12:
                    continue
                out.append((macro, list(kinds)))
        for n in (4, 5, 6):
            for _ in range(40 if tier == "quick" else 400):
                out.append((macro, [rng.choice(KINDS) for _ in range(n)]))
            # homogeneous ones
            for k in KINDS:
                out.append((macro, [k] * n))
    # dedup
    seen, uniq = set(), []
    for m, k in out:
        key = (m, tuple(k))
        if key not in seen:
            seen.add(key)
            uniq.append((m, k))
    return uniq


def run(prop, tier, seed, out, timeout, **kw):
    t0 = time.time()
    ok, outp = driver.build_lib()
    if not ok:
        return 2, "[gen_rebind] building konst failed:\n" + outp[-4000:]
    progs = programs(seed, tier)
    rendered = [render(0, m, k) for m, k in progs]
    full = [HEAD + r[0] + "\n" for r in rendered]
    twin = [HEAD + r[1].replace("fn o_0", "fn k_0") + "\n" for r in rendered]
    vf = driver.rustc_verdicts(full)
    vt = driver.rustc_verdicts(twin)
    violations = []
    compiling = []
    for i, (m, k) in enumerate(progs):
        if vt[i][0] != 0:
            return 2, "[gen_rebind] hand-written twin does not compile (harness error): %s %s\n%s\n%s" % (m, k, twin[i], vt[i][1][-1500:])
        if vf[i][0] != 0:
            violations.append(((m, k), ["does not compile (arity %d) while the hand-written match does: %s" % (len(k), vf[i][1].strip().splitlines()[0] if vf[i][1].strip() else "")], full[i]))
        else:
            compiling.append(i)
    # run the ones that compile
    evaluations = len(full) + len(twin)
    nontriv = set()
    samples = []
    labels = {"compile_checked": len(full)}
    per = 300
    for b in range(0, len(compiling), per):
        idx = compiling[b:b + per]
        parts = [HEAD]
        calls = []
        for j, i in enumerate(idx):
            k, o, pty, okv = render(j, *progs[i])
            parts.append(k)
            parts.append(o)
            calls.append("    chk(%d, k_%d(Ok(%s)), o_%d(Ok(%s)));\n    chk(%d, k_%d(Err(-7)), o_%d(Err(-7)));" % (j, j, okv, j, okv, j, j, j))
        parts.append("fn chk(i: usize, k: Result<String, i32>, o: Result<String, i32>) { if k != o { println!(\"FAIL {} konst={:?} expected={:?}\", i, k, o); } }")
        parts.append("fn main() {\n" + "\n".join(calls) + "\n    println!(\"DONE\");\n}\n")
        name = "c19_b%d" % (b // per)
        driver.write_bin(name, "\n\n".join(parts))
        okb, outb = driver.build_bin(name)
        if not okb:
            return 2, "[gen_rebind] batch does not build although every program builds alone:\n" + outb[-3000:]
        rc, outr, dt = driver.run_bin(name, timeout=timeout)
        if rc != 0 or "DONE" not in outr:
            return 2, "[gen_rebind] batch run failed:\n" + outr[-3000:]
        evaluations += 2 * len(idx)
        for line in outr.splitlines():
            if line.startswith("FAIL "):
                j = int(line.split()[1])
                i = idx[j]
                violations.append((progs[i], [line], full[i]))
    for i, (m, k) in enumerate(progs):
        labels["arity_%d" % len(k)] = labels.get("arity_%d" % len(k), 0) + 1
        if len(k) >= 3 or len(set(k)) >= 2:
            nontriv.add((m, tuple(k)))
            if len(samples) < 10 and len(nontriv) % 57 == 1:
                samples.append({"macro": m, "positions": k})
    text = []
    rc = 0
    # report the smallest violations first (shortest arity = minimal reproduction)
    violations.sort(key=lambda v: (len(v[0][1]), v[0][1]))
    for (m, k), ev, src in violations[:5]:
        path = driver.save_replay(prop, ENGINE, "rebind", {"property": prop, "engine": ENGINE, "case": {"macro": m, "positions": k},
                                                          "evidence": ev[:3], "rendered": src})
        text.append("  %s with positions %s: %s" % (m, k, ev[0][:300]))
        text.append("VIOLATION property=%s replay=%s" % (prop, path))
        rc = 1
    wall = time.time() - t0
    text.append("[%s %s] programs=%d evaluations=%d distinct_nontrivial=%d violations=%d wall=%.1fs" %
                (prop, ENGINE, len(progs), evaluations, len(nontriv), len(violations), wall))
    driver.write_evidence(out, prop, ENGINE, tier, seed, wall, evaluations, len(nontriv), RULE, samples, len(violations),
                          programs=len(progs), labels=labels)
    return rc, "\n".join(text) + "\n"


def replay(prop, path, **kw):
    body = json.load(open(path))
    ok, outp = driver.build_lib()
    if not ok:
        return 2, outp[-3000:]
    m, k = body["case"]["macro"], body["case"]["positions"]
    kk, o, pty, okv = render(0, m, k)
    v = driver.rustc_verdicts([HEAD + kk + "\n"])
    if v[0][0] != 0:
        return 1, v[0][1][-1500:] + "\nVIOLATION property=%s replay=%s\n" % (prop, path)
    src = HEAD + kk + "\n" + o + "\nfn main() { let a = (k_0(Ok(%s)), k_0(Err(-7))); let b = (o_0(Ok(%s)), o_0(Err(-7))); if a != b { println!(\"FAIL konst={:?} expected={:?}\", a, b); } }\n" % (okv, okv)
    driver.write_bin("c19_replay", src)
    okb, outb = driver.build_bin("c19_replay")
    if not okb:
        return 2, outb[-2000:]
    rc, outr, dt = driver.run_bin("c19_replay")
    if "FAIL" in outr:
        return 1, outr + "\nVIOLATION property=%s replay=%s\n" % (prop, path)
    return 0, "replay: agrees with the hand-written match\n"

"""C18 engine: parser_method! vs a hand-written reference that uses the same literal tokens in
expression position (so rustc itself decodes them)."""
import json
import os
import random
import time

import driver

ENGINE = "gen_parser_method"

RULE = ("programs = parser_method! invocations (strip_prefix, strip_suffix, find_skip, rfind_skip with match-like branches; "
        "trim_start_matches, trim_end_matches with pattern lists) over generated literal sets of 1..=4 alternatives (some "
        "branches `a | b`), intended text <= 4 chars over {a b é 漢 😀 \\n \\t \\\\ \\0 ' \" U+00A0 #} (one char in seven: first / last scalar of a UTF-8 length or of a side of the surrogate gap), each char rendered raw or as "
        "an escape (\\n \\r \\t \\\\ \\0 \\' \\\", \\xNN, \\u{..} with 1-6 hex digits / leading zeros / either case), line "
        "continuations (optionally followed by a non-ASCII white-space char that rustc keeps), raw strings with 0-2 hashes, "
        "concat! (nested once), empty / duplicate / prefix-related alternatives; inputs (inside the program) = all strings "
        "of <= 3 chars over the literals' alphabet + a foreign char and concatenations of <= 3 alternatives, through "
        "Parser::new and with_start_offset(.., 100) after a skip; oracle = reference in the same program using the same "
        "literal tokens in expression position: strip = first listed alternative that is a prefix/suffix, find = earliest "
        "start (latest end) of any alternative, ties to the first listed, trim = repeatedly remove the first listed matching "
        "alternative until none or an empty one matches, no match => default branch and parser unchanged; the invocation is written directly or inside a caller's macro_rules! with every literal forwarded as a `literal` / `expr` / `tt` / `pat_param` fragment (alone or as pieces of concat!) or every branch's whole `a | b` list forwarded as one `pat` fragment; \\u{..} escapes with `_` separators; 30% of the match-form programs sit in the caller's own loop with branch bodies that continue / break it (unlabelled or labelled), return from the function or fall through, compared with the same loop written around the reference; compared: branch, "
        "remainder, start_offset, end_offset; non-trivial = >= 2 alternatives where one is a prefix/suffix/substring of another, "
        "or a literal using >= 2 distinct encoding devices, counted per distinct program")

PRELUDE = r'''
#![allow(unused, clippy::all)]
use konst::{Parser, parser_method};

#[derive(Debug, PartialEq, Clone)]
pub struct Obs { pub branch: u32, pub rem: String, pub start: usize, pub end: usize }

pub fn obs(branch: u32, p: Parser<'_>) -> Obs {
    Obs { branch, rem: p.remainder().to_string(), start: p.start_offset(), end: p.end_offset() }
}

/// form: 0 strip_prefix 1 strip_suffix 2 find_skip 3 rfind_skip 4 trim_start_matches 5 trim_end_matches
pub fn reference(form: u8, alts: &[(&str, u32)], rem: &str, start: usize) -> Obs {
    let end = start + rem.len();
    let b = rem.as_bytes();
    let unchanged = |branch: u32| Obs { branch, rem: rem.to_string(), start, end };
    match form {
        0 => {
            for (a, br) in alts { if rem.starts_with(a) { return Obs { branch: *br, rem: rem[a.len()..].to_string(), start: start + a.len(), end }; } }
            unchanged(99)
        }
        1 => {
            for (a, br) in alts { if rem.ends_with(a) { return Obs { branch: *br, rem: rem[..rem.len() - a.len()].to_string(), start, end: end - a.len() }; } }
            unchanged(99)
        }
        2 => {
            for pos in 0..=b.len() {
                for (a, br) in alts {
                    if b[pos..].starts_with(a.as_bytes()) {
                        let cut = pos + a.len();
                        return Obs { branch: *br, rem: rem[cut..].to_string(), start: start + cut, end };
                    }
                }
            }
            unchanged(99)
        }
        3 => {
            for e in (0..=b.len()).rev() {
                for (a, br) in alts {
                    if b[..e].ends_with(a.as_bytes()) {
                        let cut = e - a.len();
                        return Obs { branch: *br, rem: rem[..cut].to_string(), start, end: start + cut };
                    }
                }
            }
            unchanged(99)
        }
        4 => {
            let mut lo = 0usize;
            loop {
                let cur = &rem[lo..];
                match alts.iter().find(|(a, _)| cur.starts_with(a)) {
                    Some((a, _)) if !a.is_empty() => lo += a.len(),
                    _ => break,
                }
            }
            Obs { branch: 0, rem: rem[lo..].to_string(), start: start + lo, end }
        }
        _ => {
            let mut hi = rem.len();
            loop {
                let cur = &rem[..hi];
                match alts.iter().find(|(a, _)| cur.ends_with(a)) {
                    Some((a, _)) if !a.is_empty() => hi -= a.len(),
                    _ => break,
                }
            }
            Obs { branch: 0, rem: rem[..hi].to_string(), start, end: start + hi }
        }
    }
}

pub fn inputs(alts: &[(&str, u32)]) -> Vec<String> {
    let mut chars: Vec<char> = Vec::new();
    for (a, _) in alts { for c in a.chars() { if !chars.contains(&c) && chars.len() < 5 { chars.push(c); } } }
    chars.push('z');
    let mut out: Vec<String> = vec![String::new()];
    let mut prev: Vec<String> = vec![String::new()];
    for _ in 0..3 {
        let mut next = Vec::new();
        for p in &prev { for c in &chars { let mut q = p.clone(); q.push(*c); next.push(q); } }
        out.extend(next.iter().cloned());
        prev = next;
    }
    // concatenations of alternatives and the foreign char
    let mut parts: Vec<String> = alts.iter().map(|(a, _)| a.to_string()).collect();
    parts.push("z".to_string());
    parts.dedup();
    for a in &parts { for b in &parts { out.push(format!("{a}{b}")); for c in &parts { out.push(format!("{a}{b}{c}")); } } }
    out.sort();
    out.dedup();
    out
}

pub struct Prog {
    pub id: usize,
    pub form: u8,
    pub alts: &'static [(&'static str, u32)],
    pub k: for<'a> fn(Parser<'a>) -> (u32, Parser<'a>),
    /// loop programs: (add, action) per branch, the default branch last
    pub lp: Option<&'static [(u32, u8)]>,
}

/// the caller's loop around the invocation, written with the reference instead of the macro:
/// action 0 = fall through to `n += 100`, 1 = continue, 2 = break, 3 = return with n + 500
pub fn reference_loop(form: u8, alts: &[(&str, u32)], spec: &[(u32, u8)], rem: &str, start: usize) -> Obs {
    let mut cur = Obs { branch: 0, rem: rem.to_string(), start, end: start + rem.len() };
    let mut n = 0u32;
    let mut iters = 0u32;
    loop {
        iters += 1;
        if iters > 12 { n += 1000; break; }
        let r = reference(form, alts, &cur.rem, cur.start);
        let (add, act) = if r.branch == 99 { spec[spec.len() - 1] } else { spec[r.branch as usize] };
        cur = Obs { branch: 0, ..r };
        n += add;
        match act { 1 => continue, 2 => break, 3 => { n += 500; break } _ => {} }
        n += 100;
    }
    Obs { branch: n, ..cur }
}

pub fn run_all(progs: &[Prog]) {
    let mut total = 0u64;
    for pr in progs {
        let mut evals = 0u64;
        let mut fails = 0u64;
        let mut matched = 0u64;
        for inp in inputs(pr.alts) {
            for variant in 0..2 {
                let (p, rem, start): (Parser<'_>, &str, usize) = if variant == 0 {
                    (Parser::new(&inp), &inp, 0)
                } else {
                    // a preceding skip of one char, base offset 100
                    let p = Parser::with_start_offset(&inp, 100);
                    let n = inp.chars().next().map_or(0, |c| c.len_utf8());
                    (p.skip(n), &inp[n..], 100 + n)
                };
                let want = match pr.lp {
                    Some(spec) => reference_loop(pr.form, pr.alts, spec, rem, start),
                    None => reference(pr.form, pr.alts, rem, start),
                };
                let (br, np) = (pr.k)(p);
                let got = obs(br, np);
                evals += 1;
                if want.branch != 99 && want.rem.len() != rem.len() { matched += 1; }
                if got != want {
                    fails += 1;
                    if fails <= 3 { println!("FAIL {} input={:?} variant={} konst={:?} expected={:?}", pr.id, inp, variant, got, want); }
                }
            }
        }
        total += evals;
        println!("PROG {} evals={} fails={} matched={}", pr.id, evals, fails, matched);
    }
    println!("TOTAL {}", total);
}
'''

ALPHABET = ["a", "b", "é", "漢", "😀", "\n", "\t", "\\", "\0", "'", "\"", "\u00a0", "#"]
# first / last scalar of every UTF-8 length and of each side of the surrogate gap (one char in seven): a literal decoder
# or byte-pattern emitter with a hand-written length table is only wrong on these
EDGE = ["\x7f", "\u0080", "\u07ff", "\u0800", "\ud7ff", "\ue000", "\uffff", "\U00010000", "\U0010ffff"]


def pick(rng):
    return rng.choice(EDGE) if rng.random() < 0.15 else rng.choice(ALPHABET)


SIMPLE = {"\n": "\\n", "\t": "\\t", "\\": "\\\\", "\0": "\\0", "'": "\\'", "\"": "\\\"", "\r": "\\r"}


def render_char(rng, c, devices):
    """one char inside a normal (non-raw) string literal"""
    choices = []
    if c not in ("\\", "\"", "\0", "\r"):
        choices.append("raw")
    if c in SIMPLE:
        choices += ["simple", "simple"]
    if ord(c) < 0x80:
        choices.append("hex")
    choices.append("unicode")
    how = rng.choice(choices)
    devices.add(how)
    if how == "raw":
        return c
    if how == "simple":
        return SIMPLE[c]
    if how == "hex":
        h = "%02x" % ord(c)
        return "\\x" + (h.upper() if rng.random() < 0.5 else h)
    digits = "%x" % ord(c)
    width = rng.randint(len(digits), 6)
    digits = digits.rjust(width, "0")
    if rng.random() < 0.5:
        digits = digits.upper()
    if rng.random() < 0.25:
        # rustc allows `_` separators after the first hex digit of a unicode escape
        devices.add("unicode_underscore")
        k = rng.randint(1, 3)
        for _ in range(k):
            pos = rng.randint(1, len(digits))
            digits = digits[:pos] + "_" + digits[pos:]
    return "\\u{" + digits + "}"


def render_normal(rng, text, devices):
    out = "\""
    for i, c in enumerate(text):
        if rng.random() < 0.12:
            # line continuation; sometimes the next char is U+00A0 (rustc keeps it)
            devices.add("continuation")
            out += "\\\n" + rng.choice(["", " ", "\t ", "  \n  ", "\r\n "])
            if rng.random() < 0.35:
                # a char that looks like white space but is NOT skipped by rustc after a continuation: it
                # stays part of the literal (the reference gets it from rustc itself)
                devices.add("continuation_then_unskipped_ws")
                out += rng.choice(["\x0c", "\x0b", "\u00a0", "\u2003", "\u0085", "\u3000", "\x0c ", "\x1f"])
            if c == "\u00a0":
                devices.add("continuation_then_nbsp")
                out += c
                continue
        out += render_char(rng, c, devices)
    if rng.random() < 0.05:
        devices.add("continuation")
        out += "\\\n   "
    return out + "\""


def render_raw(rng, text, devices):
    if "\0" in text or "\r" in text:
        return None
    hashes = rng.randint(0, 2)
    if "\"" in text and hashes == 0:
        hashes = 1
    while ("\"" + "#" * hashes) in text and hashes > 0:
        hashes += 1
    if hashes > 4:
        return None
    devices.add("raw%d" % hashes)
    return "r" + "#" * hashes + "\"" + text + "\"" + "#" * hashes


def render_literal(rng, text, depth=0):
    """returns (token text, devices used)"""
    devices = set()
    r = rng.random()
    if r < 0.18:
        lit = render_raw(rng, text, devices)
        if lit is not None:
            return lit, devices
    if r < 0.36 and depth < 2:
        # concat! of 1..3 pieces
        k = rng.randint(1, 3)
        cuts = sorted(rng.randint(0, len(text)) for _ in range(k - 1))
        pieces = []
        last = 0
        for cpos in cuts + [len(text)]:
            pieces.append(text[last:cpos])
            last = cpos
        toks = []
        for pc in pieces:
            t, d = render_literal(rng, pc, depth + 1)
            toks.append(t)
            devices |= d
        devices.add("concat")
        return "concat!(" + ", ".join(toks) + ")", devices
    return render_normal(rng, text, devices), devices


def gen_text(rng, maxlen=4):
    if rng.random() < 0.12:
        # long literal (beyond the exhaustive-ish bound): 9..40 chars
        n = rng.choice([9, 15, 16, 17, 24, 31, 32, 33, 40])
        return "".join(pick(rng) for _ in range(n))
    n = rng.choice([0, 1, 1, 2, 2, 3, 4][: maxlen + 3])
    return "".join(pick(rng) for _ in range(n))


def gen_program(rng):
    form = rng.randint(0, 5)
    nalt = rng.randint(1, 4)
    texts = []
    base = gen_text(rng)
    for i in range(nalt):
        r = rng.random()
        if i > 0 and r < 0.35 and texts:
            # related to an earlier alternative: prefix / suffix / extension / duplicate
            t = rng.choice(texts)
            k = rng.random()
            if k < 0.3:
                t = t[: rng.randint(0, len(t))]
            elif k < 0.6:
                t = t[rng.randint(0, len(t)):]
            elif k < 0.85:
                t = t + pick(rng)
            texts.append(t)
        else:
            texts.append(gen_text(rng))
    alts = []
    devices_all = []
    for t in texts:
        tok, dev = render_literal(rng, t)
        alts.append({"text": t, "tok": tok})
        devices_all.append(sorted(dev))
    # group alternatives into branches (match forms); trim forms have a single pattern list
    groups = []
    if form < 4:
        cur = []
        for a in alts:
            cur.append(a)
            if rng.random() < 0.7:
                groups.append(cur)
                cur = []
        if cur:
            groups.append(cur)
    else:
        groups = [alts]
    # macro forwarding: the invocation sits inside a caller's macro_rules! and every literal arrives as a forwarded
    # fragment (`$l:literal` / `$l:expr` / `$l:tt`), alone or as pieces of a concat!(..)
    forward = rng.choice([None, None, None, None, "literal", "expr", "tt", "pat", "pat_param"])
    if forward in ("literal", "expr", "tt"):
        for a in alts:
            t = a["text"]
            cut = rng.randint(0, len(t)) if (len(t) >= 2 and rng.random() < 0.5) else None
            a["pieces"] = [t] if cut is None else [t[:cut], t[cut:]]
    # how each branch body is written: `=> expr,` / `=> { expr }` (no comma) / `=> { expr },`; same for the default
    bodyforms = [rng.randint(0, 2) for _ in range(len(groups) + 1)]
    # control flow in branch bodies: the invocation sits in the caller's own loop and branches `continue` / `break` that
    # loop (unlabelled or labelled), `return` from the function, or fall through to the statement after the macro
    loopspec = None
    if form < 4 and rng.random() < 0.3:
        acts = [(rng.choice([1, 10, 20]), rng.choice([0, 0, 1, 2, 3]), rng.random() < 0.3) for _ in range(len(groups))]
        loopspec = {"branches": acts, "default": (rng.choice([3, 7]), rng.choice([2, 2, 2, 0, 1, 3]), rng.random() < 0.3), "after": 100}
    related = any(a != b and (a["text"] in b["text"]) for a in alts for b in alts if a is not b)
    multi_dev = any(len(d) >= 2 for d in devices_all)
    return {"form": form, "groups": groups, "forward": forward, "bodyforms": bodyforms, "loop": loopspec, "related": related, "multi_device": multi_dev,
            "devices": sorted({d for ds in devices_all for d in ds})}


FORM_NAMES = ["strip_prefix", "strip_suffix", "find_skip", "rfind_skip", "trim_start_matches", "trim_end_matches"]


def plain_lit(text):
    out = []
    for c in text:
        if c in SIMPLE:
            out.append(SIMPLE[c])
        elif ord(c) < 0x20 or ord(c) == 0x7f or ord(c) == 0xa0:
            out.append("\\u{%x}" % ord(c))
        else:
            out.append(c)
    return "\"" + "".join(out) + "\""


def loop_body(e):
    """a branch body of a loop program: fuel guard, `n += add`, then the control-flow action"""
    lab = " 'outer" if e["label"] else ""
    act = ["", "continue%s" % lab, "break%s" % lab, "return (n + 500, p)"][e["act"]]
    if e["bare"] and e["act"] in (2, 3):
        return act
    return "{ fuel += 1; if fuel > 40 { return (7777, p); } n += %d; %s }" % (e["add"], act)


def loop_entries(prog):
    lp = prog["loop"]

    def norm(x):
        add, act, flag = x
        bare = flag and act in (2, 3)
        return {"add": 0 if bare else add, "act": act, "label": flag and not bare and act in (1, 2), "bare": bare}
    return [norm(x) for x in lp["branches"]] + [norm(lp["default"])]


def render_one(i, prog):
    form = prog["form"]
    name = FORM_NAMES[form]
    fwd = prog.get("forward")
    lp = prog.get("loop") if form < 4 else None
    params = []  # (fragment name, kind, argument tokens) of the caller's macro_rules!
    alts_src = []

    def new_param(kind, arg):
        params.append(("$l%d" % len(params), kind, arg))
        return params[-1][0]

    def tok(a):
        """the pattern token of alternative `a` as written in the parser_method! invocation"""
        if fwd == "pat_param":
            return new_param("pat_param", a["tok"])
        if not fwd or "pieces" not in a:
            return a["tok"]
        names = [new_param(fwd, plain_lit(piece)) for piece in a["pieces"]]
        return names[0] if len(names) == 1 else "concat!(%s)" % ", ".join(names)

    def group_pat(g):
        if fwd == "pat":
            # the whole `a | b` list of the branch arrives as one `pat` fragment
            return new_param("pat", " | ".join(a["tok"] for a in g))
        return " | ".join(tok(a) for a in g)

    for bi, g in enumerate(prog["groups"]):
        for a in g:
            ref = plain_lit(a["text"]) if (fwd in ("literal", "expr", "tt") and "pieces" in a) else a["tok"]
            alts_src.append("(%s, %d)" % (ref, bi if form < 4 else 0))
    alts_decl = "const ALTS_%d: &[(&str, u32)] = &[%s];" % (i, ", ".join(alts_src))
    pv = "$p" if fwd else "p"
    if form < 4:
        bf = prog.get("bodyforms") or [0] * (len(prog["groups"]) + 1)
        pats = [group_pat(g) for g in prog["groups"]]
        if lp:
            ents = loop_entries(prog)
            bodies = [loop_body(e) for e in ents]
            if fwd:
                # the bodies (with their `break` / `continue`) are forwarded as `expr` fragments
                bodies = [new_param("expr", b) for b in bodies]
            vals = [b + "," for b in bodies]
        else:
            vals = [["%d," % v, "{ %d }" % v, "{ %d }," % v][bf[v]] for v in range(len(pats))] + [["99", "{ 99 }", "99,"][bf[-1]]]
        branches = "".join("%s => %s\n            " % (pt, vals[bi]) for bi, pt in enumerate(pats))
        inv = "parser_method!{%s, %s;\n            %s_ => %s\n        }" % (pv, name, branches, vals[-1])
    else:
        inv = "parser_method!{%s, %s; %s}" % (pv, name, group_pat(prog["groups"][0]))
    mac = ""
    call = inv
    if fwd:
        mac = "macro_rules! fw_%d { ($p:ident%s) => { %s }; }\n" % (i, "".join(", %s:%s" % (n_, k_) for n_, k_, _ in params), inv)
        call = "fw_%d!(p%s)" % (i, "".join(", " + a_ for _, _, a_ in params))
    sig = "fn k_%d<'a>(mut p: Parser<'a>) -> (u32, Parser<'a>)" % i
    if lp:
        k = ("%s%s {\n    let mut n = 0u32; let mut iters = 0u32; let mut fuel = 0u32;\n    'outer: loop {\n        iters += 1;\n"
             "        if iters > 12 { n += 1000; break; }\n        %s;\n        n += %d;\n    }\n    (n, p)\n}" % (mac, sig, call, lp["after"]))
    elif form < 4:
        k = "%s%s {\n    let r = %s;\n    (r, p)\n}" % (mac, sig, call)
    else:
        k = "%s%s {\n    %s;\n    (0, p)\n}" % (mac, sig, call)
    return alts_decl, k


def loop_table(pr):
    if pr.get("loop") and pr["form"] < 4:
        return "Some(&[%s])" % ", ".join("(%d, %d)" % (e["add"], e["act"]) for e in loop_entries(pr))
    return "None"


def render_program(progs):
    parts = [PRELUDE]
    table = []
    for i, pr in enumerate(progs):
        a, k = render_one(i, pr)
        parts.append(a)
        parts.append(k)
        table.append("Prog { id: %d, form: %d, alts: ALTS_%d, k: k_%d, lp: %s }," % (i, pr["form"], i, i, loop_table(pr)))
    parts.append("fn main() {\n    let progs = vec![\n        " + "\n        ".join(table) + "\n    ];\n    run_all(&progs);\n}\n")
    return "\n\n".join(parts)


def single_sources(i, pr):
    """(full program, reference-only program) for the per-program rustc verdicts"""
    a, k = render_one(0, pr)
    head = "#![allow(unused)]\nuse konst::{Parser, parser_method};\n"
    return head + a + "\n" + k + "\n", head + a + "\n"


def hand_written():
    """fixed programs of interest (seed independent)"""
    def lit(t, tok):
        return {"text": t, "tok": tok}
    out = []
    for form in range(6):
        out.append({"form": form, "groups": [[lit("x\u00a0y", "\"x\\\n   \u00a0y\"")], [lit("xy", "\"xy\"")]] if form < 4 else [[lit("x\u00a0y", "\"x\\\n   \u00a0y\""), lit("xy", "\"xy\"")]],
                    "related": False, "multi_device": True, "devices": ["continuation", "continuation_then_nbsp"]})
        out.append({"form": form, "groups": [[lit("ab", "\"ab\""), lit("a", "\"a\"")], [lit("b", "\"\\x62\"")]] if form < 4 else [[lit("ab", "\"ab\""), lit("a", "\"a\""), lit("b", "\"\\x62\"")]],
                    "related": True, "multi_device": False, "devices": ["hex", "raw"]})
        out.append({"form": form, "groups": [[lit("", "\"\"")], [lit("a", "r#\"a\"#")]] if form < 4 else [[lit("", "\"\""), lit("a", "r#\"a\"#")]],
                    "related": True, "multi_device": False, "devices": ["raw1"]})
        out.append({"form": form, "groups": [[lit("é😀", "concat!(\"\\u{e9}\", concat!(r\"😀\"))")], [lit("é", "\"\\u{0000E9}\"")]] if form < 4 else [[lit("é😀", "concat!(\"\\u{e9}\", concat!(r\"😀\"))"), lit("é", "\"\\u{0000E9}\"")]],
                    "related": True, "multi_device": True, "devices": ["concat", "unicode", "raw0"]})
    return out


def parse_output(out):
    progs, fails, total = {}, {}, 0
    for line in out.splitlines():
        if line.startswith("PROG "):
            parts = line.split()
            progs[int(parts[1])] = {k: int(v) for k, v in (p.split("=") for p in parts[2:])}
        elif line.startswith("FAIL "):
            fails.setdefault(int(line.split()[1]), []).append(line)
        elif line.startswith("TOTAL "):
            total = int(line.split()[1])
    return progs, fails, total


def run_batch(name, progs, timeout):
    """returns (stats, fails, total, compile_rejections list[(idx, stderr)]) or (None, output)"""
    src = render_program(progs)
    driver.write_bin(name, src)
    ok, out = driver.build_bin(name)
    rejections = []
    if not ok:
        # find out which programs do not compile, and whether their literals compile in expression position
        okl, outl = driver.build_lib()
        if not okl:
            return None, "konst does not build:\n" + outl[-3000:]
        fulls, refs = zip(*[single_sources(i, p) for i, p in enumerate(progs)])
        vf = driver.rustc_verdicts(list(fulls))
        vr = driver.rustc_verdicts(list(refs))
        bad_ref = [i for i in range(len(progs)) if vr[i][0] != 0]
        if bad_ref:
            return None, "generated literal does not compile in expression position (harness error):\n%s\n%s" % (refs[bad_ref[0]], vr[bad_ref[0]][1][-1500:])
        keep = []
        for i in range(len(progs)):
            if vf[i][0] != 0:
                rejections.append((i, vf[i][1]))
            else:
                keep.append(i)
        if not rejections:
            return None, "batch does not build although every program builds alone:\n" + out[-3000:]
        sub = [progs[i] for i in keep]
        res = run_batch(name, sub, timeout) if sub else ({}, {}, 0, [])
        if res[0] is None:
            return res
        stats, fails, total, _ = res
        # re-index
        stats = {keep[j]: v for j, v in stats.items()}
        fails = {keep[j]: v for j, v in fails.items()}
        return stats, fails, total, rejections
    rc, out, dt = driver.run_bin(name, timeout=timeout)
    if rc != 0:
        return None, "program run failed (rc %s):\n%s" % (rc, out[-3000:])
    stats, fails, total = parse_output(out)
    return stats, fails, total, rejections


def simplify(pr):
    out = []
    for key in ("loop", "forward"):
        if pr.get(key):
            d = json.loads(json.dumps(pr))
            d[key] = None
            for g in d["groups"]:
                for a in g:
                    a.pop("pieces", None)
            out.append(d)
    if pr.get("loop"):
        # one action at a time becomes a plain fall-through
        for bi in range(len(pr["loop"]["branches"])):
            if pr["loop"]["branches"][bi][1] != 0:
                d = json.loads(json.dumps(pr))
                d["loop"]["branches"][bi][1] = 0
                out.append(d)
    # drop one alternative
    flat = [(gi, ai) for gi, g in enumerate(pr["groups"]) for ai in range(len(g))]
    if len(flat) > 1:
        for gi, ai in flat:
            d = json.loads(json.dumps(pr))
            del d["groups"][gi][ai]
            if not d["groups"][gi] and d.get("loop"):
                del d["loop"]["branches"][gi]
            d["groups"] = [g for g in d["groups"] if g]
            out.append(d)
    # replace a literal by the plainest rendering of its text
    for gi, g in enumerate(pr["groups"]):
        for ai, a in enumerate(g):
            plain = "\"" + "".join(SIMPLE.get(c, c) for c in a["text"]) + "\""
            if plain != a["tok"]:
                d = json.loads(json.dumps(pr))
                d["groups"][gi][ai]["tok"] = plain
                out.append(d)
            if len(a["text"]) > 1:
                for cut in (a["text"][1:], a["text"][:-1]):
                    d = json.loads(json.dumps(pr))
                    d["groups"][gi][ai] = {"text": cut, "tok": "\"" + "".join(SIMPLE.get(c, c) for c in cut) + "\""}
                    out.append(d)
    return out


def shrink(pr, timeout):
    cur = pr
    for _ in range(5):
        cands = simplify(cur)
        if not cands:
            break
        res = run_batch("c18_shrink", cands, timeout)
        if res[0] is None:
            break
        stats, fails, total, rej = res
        bad = [i for i in range(len(cands)) if fails.get(i) or any(r[0] == i for r in rej)]
        if not bad:
            break
        bad.sort(key=lambda i: len(json.dumps(cands[i])))
        cur = cands[bad[0]]
    return cur


def run(prop, tier, seed, out, timeout, **kw):
    t0 = time.time()
    rng = random.Random(seed * 9176 + 18)
    n = 600 if tier == "quick" else 4000
    progs_all = hand_written() + [gen_program(rng) for _ in range(n)]
    per = 130
    evaluations = 0
    violations = []
    nontriv = set()
    samples = []
    labels = {}
    for b in range(0, len(progs_all), per):
        progs = progs_all[b:b + per]
        res = run_batch("c18_b%d" % (b // per), progs, timeout)
        if res[0] is None:
            return 2, "[gen_parser_method] " + res[1]
        stats, fails, total, rej = res
        evaluations += total
        for i, pr in enumerate(progs):
            for d in pr["devices"]:
                labels["device_" + d] = labels.get("device_" + d, 0) + 1
            labels["form_" + FORM_NAMES[pr["form"]]] = labels.get("form_" + FORM_NAMES[pr["form"]], 0) + 1
            if pr.get("forward"):
                labels["forward_" + pr["forward"]] = labels.get("forward_" + pr["forward"], 0) + 1
            if pr.get("loop") and pr["form"] < 4:
                labels["caller_loop"] = labels.get("caller_loop", 0) + 1
                for e in loop_entries(pr):
                    kname = "loop_action_" + ["fallthrough", "continue", "break", "return"][e["act"]]
                    labels[kname] = labels.get(kname, 0) + 1
            st = stats.get(i, {})
            if (pr["related"] or pr["multi_device"]) and st.get("matched", 0) > 0:
                key = json.dumps(pr, sort_keys=True)
                if key not in nontriv:
                    nontriv.add(key)
                    if len(samples) < 10 and len(nontriv) % 13 == 1:
                        samples.append({"form": FORM_NAMES[pr["form"]], "branches": [[a["tok"] for a in g] for g in pr["groups"]]})
            if fails.get(i):
                violations.append((pr, fails[i]))
        for i, err in rej:
            violations.append((progs[i], ["literal accepted by rustc in expression position but rejected inside parser_method!: " + err[-600:]]))
    text = []
    rc = 0
    for pr, ev in violations[:5]:
        small = shrink(pr, timeout)
        a, k = render_one(0, small)
        path = driver.save_replay(prop, ENGINE, "prog", {"property": prop, "engine": ENGINE, "case": small, "original": pr,
                                                        "evidence": ev[:3], "rendered": a + "\n" + k})
        text.append("  program (shrunk): %s\n%s\n    %s" % (FORM_NAMES[small["form"]], "\n".join("      " + l for l in k.splitlines()), "\n    ".join(ev[:2])))
        text.append("VIOLATION property=%s replay=%s" % (prop, path))
        rc = 1
    wall = time.time() - t0
    text.append("[%s %s] programs=%d evaluations=%d distinct_nontrivial=%d violations=%d wall=%.1fs" %
                (prop, ENGINE, len(progs_all), evaluations, len(nontriv), len(violations), wall))
    driver.write_evidence(out, prop, ENGINE, tier, seed, wall, evaluations, len(nontriv), RULE, samples, len(violations),
                          programs=len(progs_all), labels=labels,
                          assumptions=["rustc's decoding of the same literal tokens in expression position is the byte oracle"])
    return rc, "\n".join(text) + "\n"


def replay(prop, path, **kw):
    body = json.load(open(path))
    res = run_batch("c18_replay", [body["case"]], 600)
    if res[0] is None:
        return 2, res[1]
    stats, fails, total, rej = res
    if fails.get(0) or rej:
        return 1, "\n".join(fails.get(0, [])[:3] + [r[1][-400:] for r in rej]) + "\nVIOLATION property=%s replay=%s\n" % (prop, path)
    return 0, "replay: program agrees with the reference\n"

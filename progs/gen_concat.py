"""C20 (program half): str_concat! / str_join! / string::from_iter! / slice_concat! evaluated in const
context vs <[&str]>::concat, join, collect::<String>() and <[&[T]]>::concat at run time."""
import json
import random
import time

import driver

ENGINE = "gen_concat"

RULE = ("programs = `const` items invoking str_concat! (over &[&str] and &[char]; inline array, named const, &CONST array, `[piece; COUNT]` with a named count; in a third of the programs the caller's constants carry names that konst's own macro bodies give to their helper items - LEN, STR, CONC, ... harvested from /repo's sources), "
        "str_join! (str and char separators: empty, 1-, 2-, 3-, 4-byte, multi-char; literal or named const), string::from_iter! "
        "(DSL chains yielding &str / &&str / char incl. flat_map, filter, map, rev, char ranges) and slice_concat! (u8, u16, &str, "
        "char, raw-pointer and raw-pointer-holding struct elements (Copy but not Sync), empty inner slices, empty list) with 0..=4 pieces of <= 3 chars over {a,é,漢,😀,NUL} (a quarter of the programs: over the first / last scalar of each UTF-8 length and of each side of the surrogate gap; 45 fixed programs put each of those 9 scalars in every char / str element and separator position) incl. empty pieces; "
        "plus the CStr constructors / views evaluated in const items on byte strings with and without interior / trailing nul (error paths included); oracle = the std expression on the same constants compared at run time (plus: a program that fails const evaluation "
        "while its std twin compiles is a violation); non-trivial = >= 2 pieces with a multi-byte piece or separator or an empty "
        "piece, counted per distinct program")

CH = ["a", "é", "漢", "😀", "\0"]


# first / last scalar of every UTF-8 length and of the two halves around the surrogate gap: a length computed by a
# hand-written range table and the bytes written by encode_utf8 only disagree on these
BOUNDARY = ["\x7f", "\u0080", "\u07ff", "\u0800", "\ud7ff", "\ue000", "\uffff", "\U00010000", "\U0010ffff"]


def esc(s):
    return "".join("\\0" if c == "\0" else "\\u{%x}" % ord(c) if c in BOUNDARY else c for c in s)


def lit(s):
    return "\"" + esc(s) + "\""


CUR = CH


def piece(rng):
    if rng.random() < 0.12:
        return "".join(rng.choice(CUR) for _ in range(rng.choice([8, 15, 16, 17, 31, 32, 33, 64])))
    n = rng.choice([0, 1, 1, 2, 3])
    return "".join(rng.choice(CUR) for _ in range(n))


_NAMES = None


def caller_names():
    """names for the caller's constants: mostly ordinary, sometimes taken from the items konst's macros declare"""
    global _NAMES
    if _NAMES is None:
        _NAMES = driver.macro_item_names()["const"] or ["LEN"]
    return _NAMES


HOSTILE_CORE = ("mod core { pub mod str { pub const fn from_utf8(_: &[u8]) -> Result<&'static str, ()> { Ok(\"caller's core::str::from_utf8\") } } "
                "pub mod mem { pub use ::core::mem::*; } pub mod ptr { pub use ::core::ptr::*; } }")


def gen(rng, i):
    g = gen_plain(rng, i)
    decl, ty, kexpr, oexpr, nt, desc = g
    if desc["kind"] in ("from_iter", "concat_str", "concat_char", "join") and rng.random() < 0.25:
        # the calling scope has a module of its own that is called `core` (a path written as `core::..` inside a macro
        # body resolves there)
        decl = decl + " " + HOSTILE_CORE
        desc = dict(desc, caller_has_mod_core=True)
    if rng.random() < 0.35 or (desc.get("elem", "").startswith("[u8;") and rng.random() < 0.8):
        # rename the caller's constants (P<i>, S<i>, N<i>) to names that konst's own macro bodies use for their items
        import re
        pool = list(caller_names())
        rng.shuffle(pool)
        if desc.get("elem", "").startswith("[u8;"):
            # prefer the names of the items that the invoked macro itself declares next to the pasted element type
            own = [x for x in ("LEN", "CONC") if x in pool]
            rng.shuffle(own)
            pool = [x for x in pool if x not in own] + own
        used = []
        for stem in ("P%d" % i, "S%d" % i, "N%d" % i):
            if re.search(r"\b%s\b" % stem, decl) and pool:
                name = pool.pop()
                used.append(name)
                decl, kexpr, oexpr, ty = (re.sub(r"\b%s\b" % stem, name, t) for t in (decl, kexpr, oexpr, ty))
        if used:
            desc = dict(desc, caller_const_names=used)
            nt = True
    return decl, ty, kexpr, oexpr, nt, desc


def gen_plain(rng, i):
    kind = rng.choice(["concat_str", "concat_str", "concat_char", "join", "join", "join", "from_iter", "from_iter", "slice_concat", "slice_concat", "cstr", "cstr"])
    if kind == "cstr":
        # the CStr constructors and views under const evaluation, error paths included: (with_nul ok?, until_nul ok?,
        # length of to_bytes, length of to_bytes_with_nul, to_str ok?) as one constant
        n = rng.choice([0, 1, 2, 3, 4, 5, 6, 9])
        bs = [rng.choice([0, 0, 97, 98, 0xff, 0xc3, 0xa9]) for _ in range(n)]
        if rng.random() < 0.5 and bs:
            bs[-1] = 0
        blit = "&[%s]" % ", ".join("%du8" % b for b in bs) if bs else "&[0u8; 0]"
        decl = "const B%d: &[u8] = %s;" % (i, blit)
        kexpr = ("{ use konst::ffi::cstr as kc; let w = kc::from_bytes_with_nul(B%d); let u = kc::from_bytes_until_nul(B%d); "
                 "(w.is_ok(), u.is_ok(), match u { Ok(c) => (kc::to_bytes(c).len(), kc::to_bytes_with_nul(c).len(), kc::to_str(c).is_ok()), Err(_) => (usize::MAX, usize::MAX, false) }) }" % (i, i))
        oexpr = ("{ use core::ffi::CStr; let w = CStr::from_bytes_with_nul(B%d); let u = CStr::from_bytes_until_nul(B%d); "
                 "(w.is_ok(), u.is_ok(), match u { Ok(c) => (c.to_bytes().len(), c.to_bytes_with_nul().len(), c.to_str().is_ok()), Err(_) => (usize::MAX, usize::MAX, false) }) }" % (i, i))
        interior = 0 in bs[:-1] if bs else False
        return decl, "(bool, bool, (usize, usize, bool))", kexpr, oexpr, interior or (bs and bs[-1] != 0), {"kind": "cstr", "bytes": bs}
    k = rng.randint(0, 4)
    global CUR
    CUR = BOUNDARY + ["a"] if rng.random() < 0.25 else CH
    pieces = [piece(rng) for _ in range(k)]
    nt = len(pieces) >= 2 and (any(not p.isascii() for p in pieces) or any(p == "" for p in pieces))
    decl = ""
    if kind == "concat_str":
        arr = "[" + ", ".join(lit(p) for p in pieces) + "]"
        form = rng.choice(["inline", "named_slice", "ref_named_array", "repeat_named"])
        if form == "repeat_named":
            p0 = pieces[0] if pieces else "é"
            n = rng.randint(0, 5)
            decl = "const N%d: usize = %d;" % (i, n)
            kexpr = "konst::string::str_concat!(&[%s; N%d])" % (lit(p0), i)
            oexpr = "[%s; N%d].concat()" % (lit(p0), i)
            return decl, "&str", kexpr, oexpr, n >= 2 and not p0.isascii(), {"kind": kind, "form": form, "piece": p0, "count": n}
        if form == "inline":
            arg = "&" + arr
        elif form == "named_slice":
            decl = "const P%d: &[&str] = &%s;" % (i, arr)
            arg = "P%d" % i
        else:
            decl = "const P%d: [&str; %d] = %s;" % (i, len(pieces), arr)
            arg = "&P%d" % i
        kexpr = "konst::string::str_concat!(%s)" % arg
        oexpr = "(%s as [&str; %d]).concat()" % (arr, len(pieces))
        return decl, "&str", kexpr, oexpr, nt, {"kind": kind, "form": form, "pieces": pieces}
    if kind == "concat_char":
        chars = [c for p in pieces for c in p][:6]
        arr = "[" + ", ".join("'%s'" % esc(c) for c in chars) + "]"
        form = rng.choice(["inline", "named_slice", "repeat"])
        if form == "repeat" and chars:
            n = rng.randint(0, 5)
            arg = "&['%s'; %d]" % (esc(chars[0]), n)
            oexpr = "['%s'; %d].iter().collect::<String>()" % (esc(chars[0]), n)
        elif form == "named_slice":
            decl = "const P%d: &[char] = &%s;" % (i, arr)
            arg = "P%d" % i
            oexpr = "(%s as [char; %d]).iter().collect::<String>()" % (arr, len(chars))
        else:
            arg = "&" + arr
            oexpr = "(%s as [char; %d]).iter().collect::<String>()" % (arr, len(chars))
        kexpr = "konst::string::str_concat!(%s)" % arg
        return decl, "&str", kexpr, oexpr, len(chars) >= 2 and any(not c.isascii() for c in chars), {"kind": kind, "form": form, "chars": chars}
    if kind == "join":
        sep_kind = rng.choice(["str", "str", "char"])
        if sep_kind == "str":
            sep = rng.choice(["", ",", ", ", "é", "漢", "😀", "a😀é", "0123456789abcdef", "é" * 17])
            sep_tok = lit(sep)
        else:
            sep = rng.choice(BOUNDARY if CUR is not CH else [",", "é", "漢", "😀", " "])
            sep_tok = "'%s'" % esc(sep)
        arr = "[" + ", ".join(lit(p) for p in pieces) + "]"
        form = rng.choice(["inline", "named"])
        if form == "named":
            decl = "const S%d: %s = %s; const P%d: &[&str] = &%s;" % (i, "&str" if sep_kind == "str" else "char", sep_tok, i, arr)
            kexpr = "konst::string::str_join!(S%d, P%d)" % (i, i)
        else:
            kexpr = "konst::string::str_join!(%s, &%s)" % (sep_tok, arr)
        oexpr = "(%s as [&str; %d]).join(%s)" % (arr, len(pieces), lit(sep))
        nt = len(pieces) >= 2 and (not sep.isascii() or any(not p.isascii() or p == "" for p in pieces))
        return decl, "&str", kexpr, oexpr, nt, {"kind": kind, "sep": sep, "sep_kind": sep_kind, "pieces": pieces}
    if kind == "from_iter":
        arr = ("[" + ", ".join(lit(p) for p in pieces) + "]") if pieces else "[\"\"; 0]"
        n = len(pieces)
        v = rng.randint(0, 7)
        if v == 0:
            kexpr = "konst::string::from_iter!(&%s)" % arr
            oexpr = "(%s as [&str; %d]).iter().copied().collect::<String>()" % (arr, n)
        elif v == 1:
            kexpr = "konst::string::from_iter!(&%s, flat_map(|s| &[*s, \"é,\"]))" % arr
            oexpr = "(%s as [&str; %d]).iter().flat_map(|s| [*s, \"é,\"]).collect::<String>()" % (arr, n)
        elif v == 2:
            kexpr = "konst::string::from_iter!(&%s, filter(|s| !s.is_empty()), rev())" % arr
            oexpr = "(%s as [&str; %d]).iter().filter(|s| !s.is_empty()).rev().copied().collect::<String>()" % (arr, n)
        elif v == 3:
            kexpr = "konst::string::from_iter!(&%s, copied())" % arr
            oexpr = "(%s as [&str; %d]).iter().copied().collect::<String>()" % (arr, n)
        elif v == 4:
            a, b = rng.choice([("a", "e"), ("\\u{d7fe}", "\\u{e001}"), ("😀", "😃"), ("z", "a"), ("é", "é")])
            kexpr = "konst::string::from_iter!('%s'..='%s')" % (a, b)
            oexpr = "('%s'..='%s').collect::<String>()" % (a, b)
        elif v == 5:
            chars = [c for p in pieces for c in p][:6]
            carr = "[" + ", ".join("'%s'" % esc(c) for c in chars) + "]"
            kexpr = "konst::string::from_iter!(&%s, filter(|c| **c != 'a'))" % (carr if chars else "['a'; 0]")
            oexpr = "(%s as [char; %d]).iter().filter(|c| **c != 'a').collect::<String>()" % (carr, len(chars))
        elif v == 6:
            chars = [c for p in pieces for c in p][:6]
            carr = "[" + ", ".join("'%s'" % esc(c) for c in chars) + "]"
            kexpr = "konst::string::from_iter!(&%s, copied(), rev())" % (carr if chars else "['a'; 0]")
            oexpr = "(%s as [char; %d]).iter().copied().rev().collect::<String>()" % (carr, len(chars))
        else:
            kexpr = "konst::string::from_iter!(&%s, enumerate(), filter(|(i, _)| *i %% 2 == 0), map(|(_, s)| *s))" % arr
            oexpr = "(%s as [&str; %d]).iter().enumerate().filter(|(i, _)| *i %% 2 == 0).map(|(_, s)| *s).collect::<String>()" % (arr, n)
        return "", "&str", kexpr, oexpr, nt or v in (1, 4), {"kind": kind, "variant": v, "pieces": pieces}
    # slice_concat
    ety = rng.choice(["u8", "u16", "&str", "char", "*const u8", "P", "[u8; N%d]" % i])
    inner = []
    for p in pieces:
        m = rng.randint(0, 3)
        if ety.startswith("[u8;"):
            # the element type mentions a constant of the caller (which `gen` may rename to a name konst's macros use)
            inner.append(["[%d, %d]" % (rng.randint(0, 255), rng.randint(0, 255)) for _ in range(m)])
        elif ety in ("u8", "u16"):
            inner.append([str(rng.randint(0, 255 if ety == "u8" else 65535)) for _ in range(m)])
        elif ety == "*const u8":
            # Copy but neither Send nor Sync: the macro documents `T: Copy` and nothing else
            inner.append([rng.choice(["core::ptr::null::<u8>()", "core::ptr::NonNull::<u8>::dangling().as_ptr() as *const u8"]) for _ in range(m)])
        elif ety == "P":
            inner.append(["P(core::ptr::null(), %d)" % rng.randint(0, 9) for _ in range(m)])
        elif ety == "&str":
            inner.append([lit(piece(rng)) for _ in range(m)])
        else:
            inner.append(["'%s'" % esc(rng.choice(CH)) for _ in range(m)])
    arr = "[" + ", ".join("&[" + ", ".join(x) + "]" for x in inner) + "]"
    if ety == "P":
        # a Copy struct with a raw-pointer field (an FFI-table entry)
        pdecl = "#[derive(Copy, Clone, PartialEq, Debug)] struct P(*const u8, u8);"
        kexpr = "&konst::slice::slice_concat!(P, &%s)" % arr
        oexpr = "{ let x: Vec<Vec<P>> = vec![%s]; x.concat() }" % ", ".join("vec![%s]" % ", ".join(x) for x in inner)
        nt = len(inner) >= 2
        return pdecl, "&[P]", kexpr, oexpr, nt, {"kind": "slice_concat", "elem": ety, "inner": inner}
    kexpr = "&konst::slice::slice_concat!(%s, &%s)" % (ety, arr)
    oexpr = "({ let x: [&[%s]; %d] = %s; x }).concat()" % (ety, len(inner), arr)
    if ety.startswith("[u8;"):
        nt = len(inner) >= 2
        return "const N%d: usize = 2;" % i, "&[%s]" % ety, kexpr, oexpr, nt, {"kind": "slice_concat", "elem": ety, "inner": inner}
    if ety == "*const u8":
        oexpr = "{ let x: Vec<Vec<*const u8>> = vec![%s]; x.concat() }" % ", ".join("vec![%s]" % ", ".join(x) for x in inner)
    nt = len(inner) >= 2 and any(len(x) == 0 for x in inner) and any(len(x) > 0 for x in inner)
    return "", "&[%s]" % ety, kexpr, oexpr, nt, {"kind": "slice_concat", "elem": ety, "inner": inner}


def block(i, g):
    decl, ty, kexpr, oexpr, nt, desc = g
    if ty.startswith("("):
        return "    { %s const K: %s = %s; let o = %s; if K != o { println!(\"FAIL %d konst={:?} std={:?}\", K, o); } }" % (decl, ty, kexpr, oexpr, i)
    return "    { %s const K: %s = %s; let o = %s; if K != &o[..] { println!(\"FAIL %d konst={:?} std={:?}\", K, o); } }" % (decl, ty, kexpr, oexpr, i)


def single(g):
    decl, ty, kexpr, oexpr, nt, desc = g
    # the caller's items sit in a block, as in the batched program (a caller module `core` must not meet the crate-level one)
    full = "#![allow(unused)]\npub fn k() { %s const K: %s = %s; }\n" % (decl, ty, kexpr)
    twin = "#![allow(unused)]\npub fn o() { %s let _o = %s; }\n" % (decl, oexpr)
    return full, twin


def fixed_cases():
    """hand-written programs of interest (seed independent): empty list forms, separators of each width"""
    out = []
    out.append(("", "&str", "konst::string::str_concat!(&[])", "String::new()", True, {"kind": "concat_str", "form": "empty_inline"}))
    out.append(("", "&str", "konst::string::str_join!(\",\", &[])", "String::new()", True, {"kind": "join", "form": "empty_inline"}))
    out.append(("const E: &[&str] = &[];", "&str", "konst::string::str_concat!(E)", "String::new()", True, {"kind": "concat_str", "form": "empty_named"}))
    out.append(("const E: &[&str] = &[];", "&str", "konst::string::str_join!(\"漢\", E)", "String::new()", True, {"kind": "join", "form": "empty_named"}))
    out.append(("", "&str", "konst::string::str_join!(\"😀\", &[\"\", \"\", \"\"])", "[\"\", \"\", \"\"].join(\"😀\")", True, {"kind": "join", "form": "all_empty_pieces"}))
    out.append(("", "&[u8]", "&konst::slice::slice_concat!(u8, &[])", "Vec::<u8>::new()", True, {"kind": "slice_concat", "form": "empty"}))
    out.append(("", "&[u8]", "&konst::slice::slice_concat!(u8, &[&[], &[]])", "Vec::<u8>::new()", True, {"kind": "slice_concat", "form": "only_empty_inner"}))
    # zero-sized elements: total lengths up to usize::MAX are representable, one more is not (std: "capacity overflow")
    # (totals that fit cannot be evaluated either: copying 2^64 zero-sized elements trips rustc's long_running_const_eval)
    for a, b in (("usize::MAX", "1"), ("usize::MAX / 2 + 1", "usize::MAX / 2 + 1"), ("usize::MAX", "usize::MAX")):
        out.append(("", "(usize,)", "(konst::slice::slice_concat!((), &[&[(); %s], &[(); %s]]).len(),)" % (a, b), "(0usize,)", True,
                    {"kind": "slice_concat", "form": "length_overflow", "lengths": [a, b], "expect": "reject"}))
    for b in BOUNDARY:
        e = esc(b)
        d = {"form": "utf8_length_boundary", "scalar": "U+%04X" % ord(b)}
        out.append(("", "&str", "konst::string::str_concat!(&['a', '%s', 'a', '%s'])" % (e, e),
                    "['a', '%s', 'a', '%s'].iter().collect::<String>()" % (e, e), True, dict(d, kind="concat_char")))
        out.append(("", "&str", "konst::string::str_concat!(&[\"%s\", \"a%s\", \"\"])" % (e, e),
                    "[\"%s\", \"a%s\", \"\"].concat()" % (e, e), True, dict(d, kind="concat_str")))
        out.append(("", "&str", "konst::string::str_join!('%s', &[\"a\", \"%s\", \"\"])" % (e, e),
                    "[\"a\", \"%s\", \"\"].join('%s'.to_string().as_str())" % (e, e), True, dict(d, kind="join", sep="char")))
        out.append(("", "&str", "konst::string::str_join!(\"%sa\", &[\"\", \"%s\", \"b\"])" % (e, e),
                    "[\"\", \"%s\", \"b\"].join(\"%sa\")" % (e, e), True, dict(d, kind="join", sep="str")))
        out.append(("", "&str", "konst::string::from_iter!(&['%s', 'a', '%s'], copied(), rev())" % (e, e),
                    "['%s', 'a', '%s'].iter().copied().rev().collect::<String>()" % (e, e), True, dict(d, kind="from_iter")))
    return out


def run(prop, tier, seed, out, timeout, **kw):
    t0 = time.time()
    rng = random.Random(seed * 977 + 20)
    n = 800 if tier == "quick" else 6000
    gens = fixed_cases() + [gen(rng, i) for i in range(n)]
    violations = []
    # programs whose total length does not fit in usize: evaluating them to any array is wrong, they must be rejected
    # (a panic during const evaluation)
    must_reject = [g for g in gens if g[5].get("expect") == "reject"]
    gens = [g for g in gens if g[5].get("expect") != "reject"]
    if must_reject:
        ok, outp = driver.build_lib()
        if not ok:
            return 2, "[gen_concat] konst does not build:\n" + outp[-3000:]
        fulls = [single(g)[0] for g in must_reject]
        for g, (rcv, msg), full in zip(must_reject, driver.rustc_verdicts(fulls), fulls):
            if rcv == 0:
                violations.append((g[5], ["the total length overflows usize, yet the macro evaluated to an array (std: capacity overflow panic)"], full))
    per = 400
    evaluations = 0
    for b in range(0, len(gens), per):
        chunk = gens[b:b + per]
        src = "#![allow(unused, clippy::all)]\nfn main() {\n" + "\n".join(block(i, g) for i, g in enumerate(chunk)) + "\n    println!(\"DONE\");\n}\n"
        name = "c20_b%d" % (b // per)
        driver.write_bin(name, src)
        ok, outp = driver.build_bin(name)
        if not ok:
            okl, outl = driver.build_lib()
            if not okl:
                return 2, "[gen_concat] konst does not build:\n" + outl[-3000:]
            fulls, twins = zip(*[single(g) for g in chunk])
            vf = driver.rustc_verdicts(list(fulls))
            vt = driver.rustc_verdicts(list(twins))
            bad_twin = [i for i in range(len(chunk)) if vt[i][0] != 0]
            if bad_twin:
                return 2, "[gen_concat] std twin does not compile (harness error):\n%s\n%s" % (twins[bad_twin[0]], vt[bad_twin[0]][1][-1500:])
            rej = [i for i in range(len(chunk)) if vf[i][0] != 0]
            if not rej:
                return 2, "[gen_concat] batch does not build although every program builds alone:\n" + outp[-3000:]
            for i in rej:
                violations.append((chunk[i][5], ["const evaluation / compilation failed: " + vf[i][1].strip()[-500:]], fulls[i]))
            continue
        rc, outr, dt = driver.run_bin(name, timeout=timeout)
        if rc != 0 or "DONE" not in outr:
            return 2, "[gen_concat] run failed:\n" + outr[-3000:]
        evaluations += len(chunk)
        for line in outr.splitlines():
            if line.startswith("FAIL "):
                i = int(line.split()[1])
                violations.append((chunk[i][5], [line], single(chunk[i])[0]))
    gens = gens + must_reject
    nontriv = {json.dumps(g[5], sort_keys=True, ensure_ascii=False) for g in gens if g[4]}
    labels = {}
    for g in gens:
        labels[g[5]["kind"]] = labels.get(g[5]["kind"], 0) + 1
    samples = [g[5] for g in gens if g[4]][:10]
    text = []
    rc = 0
    violations.sort(key=lambda v: len(json.dumps(v[0])))
    for desc, ev, src in violations[:5]:
        path = driver.save_replay(prop, ENGINE, "concat", {"property": prop, "engine": ENGINE, "case": desc, "evidence": ev, "rendered": src})
        text.append("  %s\n    %s" % (json.dumps(desc, ensure_ascii=False), ev[0][:300]))
        text.append("VIOLATION property=%s replay=%s" % (prop, path))
        rc = 1
    wall = time.time() - t0
    text.append("[%s %s] programs=%d evaluations=%d distinct_nontrivial=%d violations=%d wall=%.1fs" %
                (prop, ENGINE, len(gens), evaluations, len(nontriv), len(violations), wall))
    driver.write_evidence(out, prop, ENGINE, tier, seed, wall, max(evaluations, 1), len(nontriv), RULE, samples, len(violations),
                          programs=len(gens), labels=labels)
    return rc, "\n".join(text) + "\n"


def replay(prop, path, **kw):
    body = json.load(open(path))
    ok, outp = driver.build_lib()
    if not ok:
        return 2, outp[-3000:]
    v = driver.rustc_verdicts([body["rendered"]])
    if v[0][0] != 0:
        return 1, v[0][1][-1500:] + "\nVIOLATION property=%s replay=%s\n" % (prop, path)
    return 0, "replay: the program compiles now; re-run the check for the value comparison\n"

"""C15 (program half): destructure! over generated patterns of every supported shape, with a drop
ledger inside the generated program."""
import json
import random
import time

import driver

ENGINE = "gen_destructure"

RULE = ("programs = destructure! invocations from a pattern grammar: braced structs (field, `field: renamed`, `field: _`, "
        "`field: (sub, pattern)`, `field: mut x`), tuple structs, tuples of arity 0..=16, arrays with prefix / `rest @ ..` / "
        "bare `..` / suffix / `_` / parenthesised sub-patterns / empty; struct named by path or by `Path<T>` type form, with "
        "and without `: Type` annotation; #[repr(packed)] / packed(2) / packed(4) / packed(8) structs (with and without repr(C)) holding u64 / u128 / Drop fields behind a u8, generic, zero-sized and nested-aggregate fields; every "
        "field value is built from ledger-tracked Drop values with distinct ids; oracle (inside the program): right after the "
        "macro statement every id matched by `_` / `..` has been dropped exactly once and every bound id is live with its "
        "payload intact; the bound values arrive in declaration order with the original ids; after dropping them every id "
        "has been dropped exactly once; in a fifth of the programs with an ignored element that element's destructor panics (inside catch_unwind): nothing may then be dropped twice; non-trivial = a `_`/`..` next to a bound Drop field, or a packed struct, or arity >= 8, "
        "counted per distinct program")

PRELUDE = r'''
#![allow(unused, clippy::all)]
use std::cell::RefCell;
use std::collections::HashMap;
use std::marker::PhantomData;

const MAGIC: u64 = 0x5AFE_C0DE_D00D_F00D;
thread_local! { static LEDGER: RefCell<(u32, HashMap<u32, u32>, Vec<String>)> = RefCell::new((0, HashMap::new(), Vec::new())); }
pub fn reset() { LEDGER.with(|l| *l.borrow_mut() = (0, HashMap::new(), Vec::new())); }
pub fn err(e: String) { LEDGER.with(|l| l.borrow_mut().2.push(e)); }
#[derive(Debug)]
pub struct T { magic: u64, id: u32, payload: u64 }
impl T {
    pub fn new() -> T { LEDGER.with(|l| { let mut l = l.borrow_mut(); let id = l.0; l.0 += 1; l.1.insert(id, 0); T { magic: MAGIC, id, payload: 7000 + id as u64 * 13 } }) }
}
impl Drop for T {
    fn drop(&mut self) {
        let (magic, id, payload) = (self.magic, self.id, self.payload);
        if magic != MAGIC { err(format!("drop of a value without the magic stamp ({:#x})", magic)); return; }
        if payload != 7000 + id as u64 * 13 { err(format!("id {} dropped with a changed payload {}", id, payload)); }
        LEDGER.with(|l| { let mut l = l.borrow_mut(); let e = l.1.entry(id).or_insert(0); *e += 1; if *e > 1 { let n = *e; l.2.push(format!("id {} dropped {} times", id, n)); } });
        self.magic = 0xDEAD;
        // an armed value panics in its destructor, once (after its drop has been recorded)
        if BOMB.with(|b| b.get()) == Some(id) { BOMB.with(|b| b.set(None)); panic!("destructor of id {} panics", id); }
    }
}
thread_local! { static BOMB: std::cell::Cell<Option<u32>> = const { std::cell::Cell::new(None) }; }
pub fn arm(id: u32) { BOMB.with(|b| b.set(Some(id))); }
/// verdict of a run whose ignored element panicked in its destructor: unwinding may leak, but nothing may be dropped twice
pub fn finish_unwound(total: u32) -> Vec<String> {
    BOMB.with(|b| b.set(None));
    LEDGER.with(|l| {
        let l = l.borrow();
        let mut e: Vec<String> = l.2.iter().filter(|m| m.contains("dropped") && m.contains("times")).cloned().collect();
        for id in 0..total { let d = l.1.get(&id).copied().unwrap_or(0); if d > 1 { e.push(format!("id {} dropped {} times on the unwinding path", id, d)); } }
        e.sort(); e.dedup();
        e
    })
}
pub trait Ids { fn ids(&self, out: &mut Vec<u32>); }
impl Ids for T { fn ids(&self, out: &mut Vec<u32>) {
    let (magic, id, payload) = (self.magic, self.id, self.payload);
    if magic != MAGIC { err(format!("bound value without the magic stamp ({:#x})", magic)); }
    if payload != 7000 + id as u64 * 13 { err(format!("bound id {} has a changed payload {}", id, payload)); }
    out.push(id);
} }
impl Ids for () { fn ids(&self, _: &mut Vec<u32>) {} }
impl Ids for u8 { fn ids(&self, _: &mut Vec<u32>) {} }
impl Ids for u64 { fn ids(&self, _: &mut Vec<u32>) { if *self != 0x0102_0304_0506_0708u64 { err(format!("u64 field arrived as {:#x}", self)); } } }
impl Ids for u128 { fn ids(&self, _: &mut Vec<u32>) { if *self != 0x0102_0304_0506_0708_090a_0b0c_0d0e_0f10u128 { err(format!("u128 field arrived as {:#x}", self)); } } }
impl<X> Ids for PhantomData<X> { fn ids(&self, _: &mut Vec<u32>) {} }
impl<A: Ids, B: Ids> Ids for (A, B) { fn ids(&self, out: &mut Vec<u32>) { self.0.ids(out); self.1.ids(out); } }
impl<A: Ids, const N: usize> Ids for [A; N] { fn ids(&self, out: &mut Vec<u32>) { for x in self { x.ids(out); } } }
pub fn drops(id: u32) -> u32 { LEDGER.with(|l| l.borrow().1.get(&id).copied().unwrap_or(999)) }
pub fn check_after(dropped: &[u32], live: &[u32]) {
    for &d in dropped { if drops(d) != 1 { err(format!("id {} matched by `_`/`..` has drop count {} right after the macro statement (expected 1)", d, drops(d))); } }
    for &v in live { if drops(v) != 0 { err(format!("bound id {} has drop count {} while still held", v, drops(v))); } }
}
pub fn finish(total: u32, got: &[u32], want: &[u32]) -> Vec<String> {
    if got != want { err(format!("bound ids arrived as {:?}, expected {:?}", got, want)); }
    LEDGER.with(|l| {
        let l = l.borrow();
        let mut e = l.2.clone();
        if l.0 != total { e.push(format!("{} values were created, expected {}", l.0, total)); }
        for id in 0..total { let d = l.1.get(&id).copied().unwrap_or(0); if d != 1 { e.push(format!("id {} dropped {} times by the end (expected exactly once)", id, d)); } }
        e
    })
}
'''

FIELD_KINDS = ["T", "T", "T", "pair", "arr", "zst", "u8", "gen", "u64", "u128"]
# every packing the language has: fields with a natural alignment above N sit at under-aligned addresses
PACKINGS = ["#[repr(C, packed)]", "#[repr(packed)]", "#[repr(packed(2))]", "#[repr(C, packed(2))]", "#[repr(packed(4))]", "#[repr(C, packed(4))]", "#[repr(packed(8))]"]


class Ctr:
    def __init__(self):
        self.n = 0

    def take(self, k):
        ids = list(range(self.n, self.n + k))
        self.n += k
        return ids


def field_value(kind, ctr):
    """(type text, constructor expr, ids)"""
    if kind in ("T", "gen"):
        return "T", "T::new()", ctr.take(1)
    if kind == "pair":
        return "(T, T)", "(T::new(), T::new())", ctr.take(2)
    if kind == "arr":
        return "[T; 2]", "[T::new(), T::new()]", ctr.take(2)
    if kind == "zst":
        return "()", "()", []
    if kind == "u8":
        return "u8", "7u8", []
    if kind == "u64":
        return "u64", "0x0102_0304_0506_0708u64", []
    if kind == "u128":
        return "u128", "0x0102_0304_0506_0708_090a_0b0c_0d0e_0f10u128", []
    raise ValueError(kind)


def position(rng, kind, j, allow_sub=True):
    """returns (pattern text for a positional slot, bound variable names in order, sub_ids split or None, is_wild)"""
    r = rng.random()
    if r < 0.25:
        return "_", [], True
    if r < 0.35 and kind == "pair" and allow_sub:
        return "(p%d, q%d)" % (j, j), ["p%d" % j, "q%d" % j], False
    if r < 0.45 and kind == "arr" and allow_sub:
        return "[p%d, q%d]" % (j, j), ["p%d" % j, "q%d" % j], False
    if r < 0.55:
        return "mut x%d" % j, ["x%d" % j], False
    return "x%d" % j, ["x%d" % j], False


def gen_struct(rng, i, tuple_struct, force_packed=False):
    ctr = Ctr()
    nf = rng.choice([0, 1, 2, 3, 3, 4, 5, 8])
    if tuple_struct:
        nf = min(nf, 16)
    if force_packed:
        nf = max(nf, 2)
    packed = (rng.random() < 0.25 or force_packed) and nf > 0
    generic = rng.random() < 0.3
    kinds = [rng.choice(FIELD_KINDS) for _ in range(nf)]
    if force_packed:
        # an odd-sized first field so that the following ones really are misaligned
        kinds[0] = "u8"
    if not generic:
        kinds = ["T" if k == "gen" else k for k in kinds]
    elif "gen" not in kinds and nf > 0:
        kinds[0] = "gen"
    elif nf == 0:
        generic = False
    fields = []
    for j, k in enumerate(kinds):
        ty, ctor, ids = field_value(k, ctr)
        fields.append({"kind": k, "ty": "G" if k == "gen" else ty, "ctor": ctor, "ids": ids})
    name = "S%d" % i
    gparams = "<G>" if generic else ""
    targs = "<T>" if generic else ""
    packing = rng.choice(PACKINGS) if packed else ""
    attr = packing + "\n" if packed else ""
    if tuple_struct:
        decl = "%sstruct %s%s(%s);" % (attr, name, gparams, ", ".join(f["ty"] for f in fields))
        ctor = "%s(%s)" % (name, ", ".join(f["ctor"] for f in fields))
    else:
        decl = "%sstruct %s%s { %s }" % (attr, name, gparams, ", ".join("f%d: %s" % (j, f["ty"]) for j, f in enumerate(fields)))
        ctor = "%s { %s }" % (name, ", ".join("f%d: %s" % (j, f["ctor"]) for j, f in enumerate(fields)))
    pats, bound, want, dropped = [], [], [], []
    for j, f in enumerate(fields):
        ptxt, names, wild = position(rng, f["kind"], j, allow_sub=not packed)
        if tuple_struct:
            pats.append(ptxt)
        else:
            form = rng.random()
            if ptxt == "x%d" % j and form < 0.4:
                # plain field shorthand: the binding is named like the field
                pats.append("f%d" % j)
                names = ["f%d" % j]
            else:
                pats.append("f%d: %s" % (j, ptxt))
        if wild:
            dropped += f["ids"]
        else:
            bound += names
            want += f["ids"]
    type_form = rng.random() < 0.4
    annot = rng.random() < 0.4
    if tuple_struct:
        head = ("%s%s, (%s)" % (name, targs, ", ".join(pats))) if type_form else ("%s(%s)" % (name, ", ".join(pats)))
    else:
        head = ("%s%s {%s}" % (name, targs, ", ".join(pats))) if type_form else ("%s{%s}" % (name, ", ".join(pats)))
    if not generic and type_form:
        head = head.replace(name, "self::" + name, 1) if rng.random() < 0.5 else head
    ann = (": %s%s" % (name, targs)) if annot else ""
    stmt = "konst::destructure!{%s%s = v}" % (head, ann)
    desc = {"shape": "tuple_struct" if tuple_struct else "braced", "fields": kinds, "pattern": head + ann, "packed": packing if packed else False, "generic": generic}
    nt = packed or nf >= 8 or (bool(dropped) and bool(want))
    return decl, "let v = %s;" % ctor, stmt, bound, want, dropped, ctr.n, desc, nt


def gen_tuple(rng, i):
    ctr = Ctr()
    n = rng.choice([0, 1, 2, 2, 3, 4, 6, 8, 12, 16])
    kinds = [rng.choice(["T", "T", "T", "pair", "arr", "zst", "u8"]) for _ in range(n)]
    vals = [field_value(k, ctr) for k in kinds]
    ty = "(%s)" % "".join(v[0] + ", " for v in vals)
    ctor = "(%s)" % "".join(v[1] + ", " for v in vals)
    pats, bound, want, dropped = [], [], [], []
    for j, (k, v) in enumerate(zip(kinds, vals)):
        ptxt, names, wild = position(rng, k, j)
        pats.append(ptxt)
        if wild:
            dropped += v[2]
        else:
            bound += names
            want += v[2]
    annot = rng.random() < 0.4
    head = "(%s)" % "".join(p + ", " for p in pats) if n != 1 or True else pats[0]
    if n == 0:
        head = "()"
        ty = "()"
        ctor = "()"
    stmt = "konst::destructure!{%s%s = v}" % (head, (": " + ty) if annot else "")
    desc = {"shape": "tuple", "fields": kinds, "pattern": head}
    nt = n >= 8 or (bool(dropped) and bool(want))
    return "", "let v: %s = %s;" % (ty, ctor), stmt, bound, want, dropped, ctr.n, desc, nt


def gen_array(rng, i):
    ctr = Ctr()
    ekind = rng.choice(["T", "T", "pair"])
    npre = rng.randint(0, 3)
    mid = rng.choice([None, "rest", "dots"])
    nmid = rng.randint(0, 3) if mid else 0
    nsuf = rng.randint(0, 2) if mid else 0
    n = npre + nmid + nsuf
    vals = [field_value(ekind, ctr) for _ in range(n)]
    ety = vals[0][0] if vals else ("T" if ekind == "T" else "(T, T)")
    ctor = "[%s]" % ", ".join(v[1] for v in vals)
    pats, bound, want, dropped = [], [], [], []

    def elem(j):
        r = rng.random()
        if r < 0.3:
            pats.append("_")
            dropped.extend(vals[j][2])
        elif r < 0.45 and ekind == "pair":
            pats.append("((p%d, q%d))" % (j, j))
            bound.extend(["p%d" % j, "q%d" % j])
            want.extend(vals[j][2])
        elif r < 0.55:
            pats.append("(mut x%d)" % j)
            bound.append("x%d" % j)
            want.extend(vals[j][2])
        else:
            pats.append("x%d" % j)
            bound.append("x%d" % j)
            want.extend(vals[j][2])

    for j in range(npre):
        elem(j)
    if mid == "rest":
        pats.append("rest @ ..")
        bound.append("rest")
        for j in range(npre, npre + nmid):
            want.extend(vals[j][2])
    elif mid == "dots":
        pats.append("..")
        for j in range(npre, npre + nmid):
            dropped.extend(vals[j][2])
    for j in range(npre + nmid, n):
        elem(j)
    annot = rng.random() < 0.4
    head = "[%s]" % ", ".join(pats)
    ty = "[%s; %d]" % (ety, n)
    stmt = "konst::destructure!{%s%s = v}" % (head, (": " + ty) if annot else "")
    desc = {"shape": "array", "elem": ekind, "len": n, "pattern": head}
    nt = bool(dropped) and bool(want)
    return "", "let v: %s = %s;" % (ty, ctor), stmt, bound, want, dropped, ctr.n, desc, nt


def gen(rng, i, only_packed=False):
    g = gen_plain(rng, i, only_packed)
    decl, mk, stmt, bound, want, dropped, total, desc, nt = g
    if dropped and not only_packed and rng.random() < 0.2:
        desc = dict(desc, bomb=rng.choice(dropped))
        return decl, mk, stmt, bound, want, dropped, total, desc, True
    return g


def gen_plain(rng, i, only_packed=False):
    shape = rng.choice(["braced", "braced", "tuple_struct", "tuple_struct", "tuple", "tuple", "array", "array", "array"])
    if only_packed:
        return gen_struct(rng, i, rng.random() < 0.5, force_packed=True)
    if shape == "braced":
        return gen_struct(rng, i, False)
    if shape == "tuple_struct":
        return gen_struct(rng, i, True)
    if shape == "tuple":
        return gen_tuple(rng, i)
    return gen_array(rng, i)


def render_fn(i, g):
    decl, mk, stmt, bound, want, dropped, total, desc, nt = g
    if desc.get("bomb") is not None:
        # the destructor of one ignored element panics while the macro statement runs: the bindings moved out so far and
        # the rest of the aggregate are dropped by unwinding - each at most once
        body = ["    reset();", "    arm(%d);" % desc["bomb"],
                "    let r = std::panic::catch_unwind(|| {", "        " + mk, "        " + stmt + ";"]
        for b in bound:
            body.append("        drop(%s);" % b)
        body += ["    });", "    let _ = r;", "    finish_unwound(%d)" % total]
        return "%s\nfn run_%d() -> Vec<String> {\n%s\n}" % (decl, i, "\n".join(body))
    body = []
    body.append("    reset();")
    # everything the macro expands to lives in an inner scope: hidden locals are dropped before the verdict
    body.append("    let got: Vec<u32> = {")
    body.append("        " + mk)
    body.append("        " + stmt + ";")
    body.append("        check_after(&[%s], &[%s]);" % (", ".join(map(str, dropped)), ", ".join(map(str, want))))
    body.append("        let mut got: Vec<u32> = Vec::new();")
    for b in bound:
        body.append("        %s.ids(&mut got);" % b)
    for b in bound:
        body.append("        drop(%s);" % b)
    body.append("        got")
    body.append("    };")
    body.append("    finish(%d, &got, &[%s])" % (total, ", ".join(map(str, want))))
    return "%s\nfn run_%d() -> Vec<String> {\n%s\n}" % (decl, i, "\n".join(body))


def render_program(gens):
    parts = [PRELUDE]
    for i, g in enumerate(gens):
        parts.append(render_fn(i, g))
    calls = "\n".join("    for e in run_%d() { println!(\"FAIL %d {}\", e); }" % (i, i) for i in range(len(gens)))
    parts.append("fn main() {\n%s\n    println!(\"DONE\");\n}\n" % calls)
    return "\n\n".join(parts)


def run_batch(name, gens, timeout, miri=False):
    src = render_program(gens)
    driver.write_bin(name, src)
    if miri:
        rc, out, dt = driver.sh(["cargo", "+nightly", "miri", "run", "--offline", "--bin", name], cwd=driver.CRATE, timeout=timeout,
                                env=dict(driver.ENV, MIRIFLAGS="-Zmiri-disable-isolation"))
        return rc, out
    ok, out = driver.build_bin(name)
    if not ok:
        return None, out
    rc, out, dt = driver.run_bin(name, timeout=timeout)
    return rc, out


def run(prop, tier, seed, out, timeout, miri=False, only_packed=False, **kw):
    t0 = time.time()
    rng = random.Random(seed * 313 + 15 + (7 if only_packed else 0))
    n = (40 if tier == "quick" else 120) if miri else (800 if tier == "quick" else 5000)
    if only_packed:
        n = 28
    gens = [gen(rng, i, only_packed) for i in range(n)]
    violations = []
    rejected = []
    per = 40 if miri else 250
    evaluations = 0
    for b in range(0, len(gens), per):
        chunk = gens[b:b + per]
        rc, outp = run_batch(("c15m_b%d" if miri else "c15_b%d") % (b // per), chunk, timeout, miri=miri)
        if rc is None:
            # which programs do not compile?  every generated pattern is documented as supported, so this is
            # not an ownership verdict by itself: the offenders are set aside (reported as exit 2 at the end
            # unless a real violation is found) and the rest of the batch still runs
            okl, outl = driver.build_lib()
            if not okl:
                return 2, "[gen_destructure] konst does not build:\n" + outl[-3000:]
            singles = [PRELUDE + render_fn(0, g) + "\nfn main() { run_0(); }\n" for g in chunk]
            v = driver.rustc_verdicts(singles, extra=["--crate-type", "bin"]) if False else driver.rustc_verdicts([s_.replace("fn main() { run_0(); }", "pub fn entry() { run_0(); }") for s_ in singles])
            bad = [i for i in range(len(v)) if v[i][0] != 0]
            if not bad:
                return 2, "[gen_destructure] batch does not build although every program builds alone:\n" + outp[-3000:]
            for i in bad:
                rejected.append((chunk[i][7], v[i][1][-800:]))
            chunk = [g for i, g in enumerate(chunk) if i not in set(bad)]
            rc, outp = run_batch(("c15m_b%d" if miri else "c15_b%d") % (b // per), chunk, timeout, miri=miri)
            if rc is None:
                return 2, "[gen_destructure] reduced batch still does not build:\n" + outp[-3000:]
        if miri and rc != 0 and "Undefined Behavior" in outp:
            path = driver.save_replay(prop, ENGINE, "miri", {"property": prop, "engine": ENGINE, "case": [g[7] for g in chunk], "log": outp[-6000:]})
            return 1, outp[-3000:] + "\nVIOLATION property=%s replay=%s\n" % (prop, path)
        if rc != 0 or "DONE" not in outp:
            return 2, "[gen_destructure] run failed (rc %s):\n%s" % (rc, outp[-3000:])
        evaluations += len(chunk)
        by = {}
        for line in outp.splitlines():
            if line.startswith("FAIL "):
                i = int(line.split()[1])
                by.setdefault(i, []).append(line)
        for i, lines in by.items():
            violations.append((chunk[i], lines))
    nontriv = {json.dumps(g[7], sort_keys=True) for g in gens if g[8]}
    labels = {}
    for g in gens:
        labels[g[7]["shape"]] = labels.get(g[7]["shape"], 0) + 1
        if g[7].get("packed"):
            labels["packed"] = labels.get("packed", 0) + 1
    samples = [g[7] for g in gens if g[8]][:10]
    text = []
    rc = 0
    violations.sort(key=lambda v: len(json.dumps(v[0][7])))
    for g, lines in violations[:5]:
        path = driver.save_replay(prop, ENGINE, "pattern", {"property": prop, "engine": ENGINE, "case": g[7], "evidence": lines[:4],
                                                           "rendered": render_fn(0, g)})
        text.append("  %s\n    %s" % (json.dumps(g[7]), "\n    ".join(lines[:3])))
        text.append("VIOLATION property=%s replay=%s" % (prop, path))
        rc = 1
    if rejected:
        text.append("[gen_destructure] %d generated program(s) with documented-as-supported patterns do not compile; first: %s\n%s" % (len(rejected), json.dumps(rejected[0][0]), rejected[0][1]))
        labels["programs_that_do_not_compile"] = len(rejected)
        if rc == 0:
            rc = 2
    wall = time.time() - t0
    eng = ENGINE + ("-miri" if miri else "") + ("-packed" if only_packed else "")
    text.append("[%s %s] programs=%d evaluations=%d distinct_nontrivial=%d violations=%d wall=%.1fs" %
                (prop, eng, len(gens), evaluations, len(nontriv), len(violations), wall))
    driver.write_evidence(out, prop, eng, tier, seed, wall, max(evaluations, 1), len(nontriv), RULE, samples, len(violations),
                          programs=len(gens), labels=labels,
                          assumptions=(["run under Miri: reads of moved-out / uninitialised memory are UB errors"] if miri else []))
    return rc, "\n".join(text) + "\n"


def replay(prop, path, **kw):
    body = json.load(open(path))
    if "rendered" not in body:
        return 1, body.get("log", "")[-3000:]
    src = PRELUDE + body["rendered"] + "\nfn main() { for e in run_0() { println!(\"FAIL 0 {}\", e); } println!(\"DONE\"); }\n"
    driver.write_bin("c15_replay", src)
    ok, outp = driver.build_bin("c15_replay")
    if not ok:
        return 2, outp[-3000:]
    rc, outr, dt = driver.run_bin("c15_replay")
    if "FAIL" in outr:
        return 1, outr + "\nVIOLATION property=%s replay=%s\n" % (prop, path)
    return 0, "replay: ledger is clean\n"

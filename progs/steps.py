"""Which engines decide which property (used by /verif/check)."""


def build(bin_step, py_step, miri_step, fuzz_step):
    S = {}
    S["C02"] = [bin_step("c02"), bin_step("c02", release=True, tiers=("thorough",))]
    S["C03"] = [bin_step("c03"), bin_step("c03", release=True, tiers=("thorough",))]
    S["C04"] = [bin_step("c04"), bin_step("c04", release=True, tiers=("thorough",))]
    S["C05"] = [bin_step("c05"), bin_step("c05", release=True, tiers=("thorough",))]
    return S

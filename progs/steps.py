"""Which engines decide which property (used by /verif/check)."""


def build(bin_step, py_step, miri_step, fuzz_step):
    S = {}
    S["C02"] = [bin_step("c02"), bin_step("c02", release=True, tiers=("thorough",))]
    return S

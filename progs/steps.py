"""Which engines decide which property (used by /verif/check)."""


def build(bin_step, py_step, miri_step, fuzz_step):
    S = {}
    # thorough tier: konst built with its `debug` feature (internal char-boundary / single-char assertions become panics)
    dbg = lambda name, prop=None: bin_step(name, features=("konst_debug",), tiers=("thorough",), prop=prop)
    S["C02"] = [bin_step("c02"), bin_step("c02", release=True)]
    S["C03"] = [bin_step("c03"), bin_step("c03", features=("konst_debug",)), bin_step("c03", release=True), fuzz_step("c03_str", 2000000)]
    S["C04"] = [bin_step("c04"), bin_step("c04", release=True), dbg("c04"), fuzz_step("c04_find", 2000000), py_step("gen_deep")]
    S["C05"] = [bin_step("c05"), bin_step("c05", release=True), dbg("c05"), fuzz_step("c05_trim", 2000000), py_step("gen_deep")]
    S["C07"] = [bin_step("c07"), bin_step("c07", release=True), dbg("c07"), py_step("gen_deep")]
    S["C08"] = [bin_step("c08"), bin_step("c08", release=True), fuzz_step("c08_iter", 2000000), py_step("gen_deep")]
    S["C09"] = [bin_step("c09"), bin_step("c09", release=True), fuzz_step("c09_range", 2000000)]
    S["C12"] = [bin_step("c12"), bin_step("c12", release=True), dbg("c12"), fuzz_step("c12_parse", 2000000), py_step("gen_deep")]
    S["C16"] = [bin_step("c16"), bin_step("c16", release=True), fuzz_step("c16_cmp", 2000000), py_step("gen_deep")]
    S["C06"] = [bin_step("c06"), bin_step("c06", release=True), dbg("c06"), fuzz_step("c06_split", 2000000), py_step("gen_deep")]
    S["C13"] = [bin_step("c13"), bin_step("c13", release=True), dbg("c13"), fuzz_step("c13_ops", 2000000), py_step("gen_deep")]
    S["C14"] = [bin_step("c13", prop="C14"), bin_step("c13", release=True, prop="C14"), dbg("c13", prop="C14"), fuzz_step("c13_ops", 2000000), py_step("gen_deep")]
    S["C20"] = [bin_step("c20"), bin_step("c20", release=True), py_step("gen_concat"), py_step("gen_concat", release=True), py_step("gen_deep")]
    S["C11"] = [bin_step("c11"), bin_step("c11", release=True), py_step("gen_closure_exits"), py_step("gen_closure_exits", release=True), py_step("gen_collect"), py_step("gen_collect", release=True), miri_step("c11", tiers=("thorough",)), py_step("gen_closure_exits", tiers=("thorough",), miri=True)]
    S["C15"] = [bin_step("c11", prop="C15"), bin_step("c11", prop="C15", release=True), py_step("gen_destructure"), py_step("gen_destructure", miri=True, only_packed=True), py_step("gen_destructure", tiers=("thorough",), release=True), miri_step("c11", tiers=("thorough",)), py_step("gen_destructure", tiers=("thorough",), miri=True)]
    S["C19"] = [bin_step("c19"), bin_step("c19", release=True), py_step("gen_rebind"), py_step("gen_rebind", tiers=("thorough",), release=True)]
    S["C10"] = [py_step("gen_chain"), py_step("gen_chain", release=True)]
    S["C17"] = [py_step("gen_reject"), py_step("gen_reject", release=True)]
    S["C18"] = [py_step("gen_parser_method"), py_step("gen_parser_method", tiers=("thorough",), release=True)]
    S["C01"] = [bin_step("c01"), bin_step("c01", features=("konst_debug",)), bin_step("c01", release=True), bin_step("c11", prop="C01"), py_step("gen_const"), py_step("gen_const", release=True), py_step("gen_closure_exits"), py_step("gen_closure_exits", tiers=("thorough",), release=True), py_step("gen_destructure"), py_step("gen_destructure", miri=True, only_packed=True), py_step("gen_reject"), miri_step("c01"), miri_step("c11", tiers=("thorough",))]
    return S

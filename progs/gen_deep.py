"""Long inputs under const evaluation (several properties): `const K: T = <konst call on a long input>;` compared at
run time with the std expression on the same input.  rustc's const evaluator is a second executor of the same
function with hard resource limits (128 call frames), so an implementation whose depth grows with the input -
invisible natively once the optimiser has turned the recursion into a loop - fails to compile here, and a wrong
value on a long input shows as a mismatch.  Inputs repeat a unit 100..=2000 times around a core."""
import json
import random
import time

import driver

ENGINE = "gen_deep"

RULE = ("programs = `const K: T = <konst call>;` on inputs built from 100..=2000 repetitions of a unit (pattern, digit, delimiter, "
        "equal prefix) around a core, for the functions of the property (C07 chars / char_indices and C08 slice iterators via collect_const!, C13 / C14 Parser operations, C04 find family, C05 strip / trim family, C06 split via "
        "collect_const!, C12 integer parsing of zero-padded numerals, C16 string / byte comparison, C20 str_concat! / str_join! of "
        "hundreds to thousands of pieces (an accidentally quadratic loop exceeds the const evaluator's step budget there)); oracle = the std expression on the same constants evaluated at run time; a program whose constant "
        "fails to evaluate (E0080: frame limit, overflow, failed assertion) while its std twin compiles is a violation; "
        "non-trivial = repetition count > 128 (deeper than the const evaluator's frame limit); distinct by program text")


def lit(s):
    return "\"" + s.replace("\\", "\\\\").replace("\"", "\\\"").replace("\0", "\\0") + "\""


def rows(prop, rng, tier):
    """list of (type, decls, konst expr, std expr, repetitions)"""
    out = []
    reps = [100, 127, 128, 129, 130, 200, 400] + ([1000, 2000, 5000] if tier == "thorough" else [700, 2500])
    if prop == "C05":
        for k in reps:
            for unit, pat_tok in (("-", "\"-\""), ("-", "'-'"), ("ab", "\"ab\""), ("é", "'é'"), ("é", "\"é\"")):
                s = unit * k + "core" + unit * k
                d = "const S: &str = %s;" % lit(s)
                for f in ("trim_start_matches", "trim_end_matches"):
                    out.append(("&str", d, "konst::string::%s(S, %s)" % (f, pat_tok), "S.%s(%s)" % (f, pat_tok), k))
                if pat_tok.startswith("'"):
                    out.append(("&str", d, "konst::string::trim_matches(S, %s)" % pat_tok, "S.trim_matches(%s)" % pat_tok, k))
                out.append(("Option<&str>", d, "konst::string::strip_prefix(S, %s)" % pat_tok, "S.strip_prefix(%s)" % pat_tok, k))
                out.append(("Option<&str>", d, "konst::string::strip_suffix(S, %s)" % pat_tok, "S.strip_suffix(%s)" % pat_tok, k))
                out.append(("bool", d, "konst::string::starts_with(S, %s)" % lit(unit * (k - 1)), "S.starts_with(%s)" % lit(unit * (k - 1)), k))
                out.append(("bool", d, "konst::string::ends_with(S, %s)" % lit(unit * (k - 1) + "x"), "S.ends_with(%s)" % lit(unit * (k - 1) + "x"), k))
            ws = " \t" * k + "x" + "\n " * k
            d = "const S: &str = %s;" % lit(ws).replace("\t", "\\t").replace("\n", "\\n")
            for f, o in (("trim", "trim_ascii"), ("trim_start", "trim_ascii_start"), ("trim_end", "trim_ascii_end")):
                out.append(("&str", d, "konst::string::%s(S)" % f, "S.%s()" % o, k))
            d = "const B: &[u8] = %s.as_bytes();" % lit(ws).replace("\t", "\\t").replace("\n", "\\n")
            out.append(("&[u8]", d, "konst::slice::bytes_trim(B)", "B.trim_ascii()", k))
            d = "const B: &[u8] = %s.as_bytes();" % lit("ab" * k + "#" + "ab" * k)
            out.append(("&[u8]", d, "konst::slice::bytes_trim_end_matches(B, b\"ab\")", "B.strip_suffix(%s.as_bytes()).unwrap()" % lit("ab" * k), k))
            out.append(("&[u8]", d, "konst::slice::bytes_trim_start_matches(B, b\"ab\")", "B.strip_prefix(%s.as_bytes()).unwrap()" % lit("ab" * k), k))
    elif prop == "C04":
        for k in reps:
            for needle in ("xy", "é", "aab"):
                s = "a" * k + needle + "a" * (k // 2) + needle + "a" * 3
                d = "const S: &str = %s;" % lit(s)
                n = lit(needle)
                out.append(("Option<usize>", d, "konst::string::find(S, %s)" % n, "S.find(%s)" % n, k))
                out.append(("Option<usize>", d, "konst::string::rfind(S, %s)" % n, "S.rfind(%s)" % n, k))
                out.append(("bool", d, "konst::string::contains(S, %s)" % lit(needle + "q"), "S.contains(%s)" % lit(needle + "q"), k))
                out.append(("Option<(&str, &str)>", d, "konst::string::split_once(S, %s)" % n, "S.split_once(%s)" % n, k))
                out.append(("Option<(&str, &str)>", d, "konst::string::rsplit_once(S, %s)" % n, "S.rsplit_once(%s)" % n, k))
                out.append(("Option<&str>", d, "konst::string::find_skip(S, %s)" % n, "S.find(%s).map(|i| &S[i + %d..])" % (n, len(needle.encode())), k))
                out.append(("Option<usize>", "const B: &[u8] = %s.as_bytes();" % lit(s), "konst::slice::bytes_find(B, %s.as_bytes())" % n, "%s.find(%s)" % (lit(s), n), k))
            if len(out) > 400:
                break
    elif prop == "C06":
        for k in reps[:6]:
            for delim_tok, unit in (("\",\"", "ab,"), ("','", "é,"), ("\"--\"", "x--")):
                s = unit * k + "tail"
                d = "const S: &str = %s;" % lit(s)
                out.append(("&[&str]", d, "&konst::iter::collect_const!(&str => konst::string::split(S, %s))" % delim_tok, "S.split(%s).collect::<Vec<&str>>()" % delim_tok, k))
                out.append(("&[&str]", d, "&konst::iter::collect_const!(&str => konst::string::rsplit(S, %s))" % delim_tok, "S.rsplit(%s).collect::<Vec<&str>>()" % delim_tok, k))
                out.append(("&[&str]", d, "&konst::iter::collect_const!(&str => konst::string::split_terminator(S, %s))" % delim_tok, "S.split_terminator(%s).collect::<Vec<&str>>()" % delim_tok, k))
            d = "const S: &str = %s;" % lit("é" * k)
            out.append(("&[&str]", d, "&konst::iter::collect_const!(&str => konst::string::split(S, \"\"))", "S.split(\"\").collect::<Vec<&str>>()", k))
    elif prop == "C12":
        for k in reps:
            for ty, val in (("u8", "255"), ("i8", "-128"), ("u64", "18446744073709551615"), ("i128", "-170141183460469231731687303715884105728"), ("usize", "7")):
                neg = val.startswith("-")
                s = ("-" if neg else "") + "0" * k + val.lstrip("-")
                d = "const S: &str = %s;" % lit(s)
                out.append(("Option<%s>" % ty, d, "match konst::primitive::parse_%s(S) { Ok(v) => Some(v), Err(_) => None }" % ty, "S.parse::<%s>().ok()" % ty, k))
                d2 = "const S: &str = %s;" % lit(s + ";rest")
                out.append(("Option<(%s, &str)>" % ty, d2, "match konst::Parser::new(S).parse_%s() { Ok((v, p)) => Some((v, p.remainder())), Err(_) => None }" % ty,
                            "Some((%s.parse::<%s>().unwrap(), \";rest\"))" % (lit(s), ty), k))
    elif prop == "C16":
        for k in reps:
            a = "é" * k + "a"
            b = "é" * k + "b"
            d = "const A: &str = %s; const B: &str = %s;" % (lit(a), lit(b))
            out.append(("core::cmp::Ordering", d, "konst::cmp_str(A, B)", "A.cmp(B)", k))
            out.append(("core::cmp::Ordering", d, "konst::cmp_str(B, A)", "B.cmp(A)", k))
            out.append(("bool", d, "konst::eq_str(A, B)", "A == B", k))
            out.append(("bool", d, "konst::eq_str(A, A)", "A == A", k))
            out.append(("core::cmp::Ordering", d, "konst::const_cmp!(A, B)", "A.cmp(B)", k))
            out.append(("core::cmp::Ordering", d, "konst::slice::cmp_bytes(A.as_bytes(), %s.as_bytes())" % lit("é" * k), "A.as_bytes().cmp(%s.as_bytes())" % lit("é" * k), k))
    elif prop == "C07":
        pool = ["a", "é", "个", "😀", "\u0600", "\u0800"]
        for k in reps[:7]:
            s_ = "".join(pool[(i * 7 + i // 3) % len(pool)] for i in range(k))
            d = "const S: &str = %s;" % lit(s_)
            out.append(("&[char]", d, "&konst::iter::collect_const!(char => konst::string::chars(S))", "S.chars().collect::<Vec<char>>()", k))
            out.append(("&[char]", d, "&konst::iter::collect_const!(char => konst::string::chars(S), rev())", "S.chars().rev().collect::<Vec<char>>()", k))
            out.append(("&[(usize, char)]", d, "&konst::iter::collect_const!((usize, char) => konst::string::char_indices(S))", "S.char_indices().collect::<Vec<(usize, char)>>()", k))
            out.append(("&[(usize, char)]", d, "&konst::iter::collect_const!((usize, char) => konst::string::char_indices(S), rev())", "S.char_indices().rev().collect::<Vec<(usize, char)>>()", k))
    elif prop == "C08":
        for k in reps[:7]:
            arr = "[%s]" % ", ".join(str((i * 37) % 251) for i in range(k))
            d = "const A: &[u8] = &%s;" % arr
            for it, std in (("windows(A, 3)", "A.windows(3)"), ("chunks(A, 7)", "A.chunks(7)"), ("rchunks(A, 7)", "A.rchunks(7)"), ("chunks_exact(A, 5)", "A.chunks_exact(5)"), ("rchunks_exact(A, 5)", "A.rchunks_exact(5)")):
                out.append(("&[(usize, u8)]", d, "&konst::iter::collect_const!((usize, u8) => konst::slice::%s, map(|w| (w.len(), w[0])))" % it, "%s.map(|w| (w.len(), w[0])).collect::<Vec<(usize, u8)>>()" % std, k))
                out.append(("&[(usize, u8)]", d, "&konst::iter::collect_const!((usize, u8) => konst::slice::%s, rev(), map(|w| (w.len(), w[0])))" % it, "%s.rev().map(|w| (w.len(), w[0])).collect::<Vec<(usize, u8)>>()" % std, k))
            out.append(("&[u8]", d, "&konst::iter::collect_const!(u8 => konst::slice::iter_copied(A), rev())", "A.iter().copied().rev().collect::<Vec<u8>>()", k))
    elif prop in ("C13", "C14"):
        for k in reps:
            for unit, pat in (("-", "\"-\""), ("ab", "\"ab\""), ("é", "'é'")):
                s_ = unit * k + "core;7" + unit * k
                d = "const S: &str = %s;" % lit(s_)
                n = len(unit.encode()) * k
                if prop == "C13":
                    out.append(("(usize, usize)", d, "{ let p = konst::Parser::new(S).trim_start_matches(%s); (p.start_offset(), p.end_offset()) }" % pat, "(%d, S.len())" % n, k))
                    out.append(("(usize, usize)", d, "{ let p = konst::Parser::new(S).trim_end_matches(%s); (p.start_offset(), p.end_offset()) }" % pat, "(0, S.len() - %d)" % n, k))
                    out.append(("(usize, usize)", d, "{ let p = konst::Parser::with_start_offset(S, 1000).trim_matches(%s); (p.start_offset(), p.end_offset()) }" % pat, "(1000 + %d, 1000 + S.len() - %d)" % (n, n), k))
                    out.append(("(usize, usize)", d, "{ let p = konst::Parser::new(S).skip(%d).skip_back(%d); (p.start_offset(), p.end_offset()) }" % (n, n), "(%d, S.len() - %d)" % (n, n), k))
                    out.append(("usize", d, "match konst::Parser::new(S).find_skip(\";\") { Ok(p) => p.start_offset(), Err(_) => usize::MAX }", "S.find(';').unwrap() + 1", k))
                    out.append(("usize", d, "match konst::Parser::new(S).strip_prefix(\"zz\") { Ok(_) => usize::MAX, Err(e) => e.offset() }", "0", k))
                else:
                    out.append(("&str", d, "konst::Parser::new(S).trim_start_matches(%s).remainder()" % pat, "S.trim_start_matches(%s)" % pat, k))
                    out.append(("&str", d, "konst::Parser::new(S).trim_end_matches(%s).remainder()" % pat, "S.trim_end_matches(%s)" % pat, k))
                    out.append(("&str", d, "konst::Parser::new(S).skip(%d).skip_back(%d).remainder()" % (n, n), "\"core;7\"", k))
                    out.append(("&str", d, "match konst::Parser::new(S).rfind_skip(\";\") { Ok(p) => p.remainder(), Err(_) => \"<err>\" }", "&S[..S.rfind(';').unwrap()]", k))
                    out.append(("(&str, &str)", d, "match konst::Parser::new(S).split(\";\") { Ok((piece, p)) => (piece, p.remainder()), Err(_) => (\"<err>\", \"\") }", "S.split_once(';').unwrap()", k))
    elif prop == "C20":
        for k in reps[:7] + [1500, 2500]:
            out.append(("&str", "const N: usize = %d;" % k, "konst::string::str_concat!(&[\"ab\"; N])", "[\"ab\"; N].concat()", k))
            out.append(("&str", "const N: usize = %d;" % k, "konst::string::str_join!(\", \", &[\"é\"; N])", "[\"é\"; N].join(\", \")", k))
            out.append(("&str", "const N: usize = %d;" % k, "konst::string::str_concat!(&['é'; N])", "['é'; N].iter().collect::<String>()", k))
            out.append(("&[u8]", "const N: usize = %d;" % k, "&konst::slice::slice_concat!(u8, &[&[1u8, 2, 3] as &[u8]; N])", "[[1u8, 2, 3]; N].concat()", k))
    return out


def block(i, r):
    ty, decl, k, s, _ = r
    cmp = "K.as_ref().map(|x| &x[..]) != o.as_ref().map(|x| &x[..])" if False else None
    if ty.startswith("&["):
        test = "K != &o[..]"
    elif ty == "&str":
        test = "K != &o[..]"
    else:
        test = "K != o"
    return "    { %s const K: %s = %s; let o = %s; if %s { println!(\"FAIL %d konst={:?} std={:?}\", K, o); } }" % (decl, ty, k, s, test, i)


def build_and_run(name, items, timeout):
    src = "#![allow(unused, clippy::all)]\nfn main() {\n" + "\n".join(block(i, r) for i, r in enumerate(items)) + "\n    println!(\"DONE\");\n}\n"
    driver.write_bin(name, src)
    ok, outp = driver.build_bin(name)
    if not ok:
        return None, outp
    rc, outr, dt = driver.run_bin(name, timeout=timeout)
    if rc != 0 or "DONE" not in outr:
        return None, "run failed rc=%s\n%s" % (rc, outr[-2000:])
    return outr, ""


def run(prop, tier, seed, out, timeout, **kw):
    t0 = time.time()
    rng = random.Random(seed * 17 + 5)
    items = rows(prop, rng, tier)
    if not items:
        return 2, "[gen_deep] no rows for %s" % prop
    violations = []
    per = 150
    for b in range(0, len(items), per):
        chunk = items[b:b + per]
        outr, err = build_and_run("deep_%s" % prop.lower(), chunk, timeout)
        if outr is None:
            # find the failing items (bisection); std twins are plain method calls on the same constants
            bad, stack = [], [list(range(len(chunk)))]
            while stack and len(bad) < 4:
                idx = stack.pop()
                o2, e2 = build_and_run("deep_bis", [chunk[i] for i in idx], timeout)
                if o2 is not None:
                    for line in o2.splitlines():
                        if line.startswith("FAIL "):
                            violations.append((chunk[idx[int(line.split()[1])]], line[:300]))
                    continue
                if len(idx) == 1:
                    bad.append((idx[0], e2))
                else:
                    h = len(idx) // 2
                    stack.append(idx[h:])
                    stack.append(idx[:h])
            if not bad:
                return 2, "[gen_deep] batch fails but no single item does:\n" + err[-3000:]
            for i, e in bad:
                if "E0080" in e or "evaluation of constant" in e or "overflowed its stack" in e or "run failed" in e:
                    import re
                    msg = " ".join(re.findall(r"error(?:\[E\d+\])?: .*", e)[:2]) or e.strip()[-300:]
                    violations.append((chunk[i], "the constant cannot be evaluated / the program dies although the std twin is fine: " + msg))
                else:
                    # some other compile error (e.g. the deny-by-default long_running_const_eval lint): a verdict if the
                    # std expression on the same constants still compiles
                    ty, decl, k, st, _ = chunk[i]
                    driver.write_bin("deep_twin", "#![allow(unused)]\nfn main() { %s let o = %s; println!(\"{}\", std::mem::size_of_val(&o)); }\n" % (decl, st))
                    okt, outt = driver.build_bin("deep_twin")
                    if not okt:
                        return 2, "[gen_deep] generated program does not compile, nor does its std twin (generator error):\n%s\n%s" % (block(0, chunk[i]), e[-3000:])
                    import re
                    violations.append((chunk[i], "the constant does not compile although the std twin does: " + " ".join(re.findall(r"error(?:\[E\d+\])?: .*", e)[:2])))
            continue
        for line in outr.splitlines():
            if line.startswith("FAIL "):
                violations.append((chunk[int(line.split()[1])], line[:300]))
    nontriv = [r for r in items if r[4] > 128]
    text, rc = [], 0
    for r, why in violations[:5]:
        desc = {"type": r[0], "decl": r[1][:2000], "konst": r[2], "std": r[3], "repetitions": r[4]}
        path = driver.save_replay(prop, ENGINE, "deep", {"property": prop, "engine": ENGINE, "case": desc, "evidence": [why], "full_decl": r[1]})
        text.append("  %s (unit repeated %d times)\n    %s" % (r[2][:200], r[4], why[:400]))
        text.append("VIOLATION property=%s replay=%s" % (prop, path))
        rc = 1
    wall = time.time() - t0
    text.append("[%s %s] programs=%d deeper_than_128=%d violations=%d wall=%.1fs" % (prop, ENGINE, len(items), len(nontriv), len(violations), wall))
    labels = {}
    for r in items:
        labels["repetitions_%d" % r[4]] = labels.get("repetitions_%d" % r[4], 0) + 1
    samples = [{"konst": r[2][:160], "repetitions": r[4]} for r in nontriv[::max(1, len(nontriv) // 8)][:8]]
    driver.write_evidence(out, prop, ENGINE, tier, seed, wall, len(items), len(nontriv), RULE, samples, len(violations), programs=len(items), labels=labels,
                          assumptions=["std's methods on the same constants are the oracle", "rustc's const evaluator (frame limit 128) is the observer of evaluation depth"])
    return rc, "\n".join(text) + "\n"


def replay(prop, path, **kw):
    body = json.load(open(path))
    c = body["case"]
    r = (c["type"], body.get("full_decl", c["decl"]), c["konst"], c["std"], c["repetitions"])
    outr, err = build_and_run("deep_replay", [r], 600)
    if outr is None:
        return 1, err[-2000:] + "\nVIOLATION property=%s replay=%s\n" % (prop, path)
    if "FAIL" in outr:
        return 1, outr + "\nVIOLATION property=%s replay=%s\n" % (prop, path)
    return 0, "replay: the constant evaluates and equals std now\n"

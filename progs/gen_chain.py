"""C10 engine: iterator-DSL method chains vs the same std Iterator chains.

Descriptors are JSON trees (source, adapters, consumer, macro).  A typed grammar tracks item type,
double-endedness / exact size (as std sees them) and finiteness so that the std chain emitted next to
the konst chain is valid Rust.  Many descriptors are rendered into one program; a runner in the program
enumerates inputs (slices over a small value range, range bounds, numeric arguments) and compares the
Debug rendering of both results.  Disagreements are attributed:

  konst == std literal chain                                    -> agreement
  konst != literal, == source-reversed chain ("alt"):
        chain has take/skip/zip before the reversing method     -> known finding posdep-adapter-before-reversal (if listed)
        chain has enumerate before it / consumer is rposition   -> documented exception, agreement
  anything else                                                 -> VIOLATION
"""
import json
import os
import random
import time

import driver

ENGINE = "gen_chain"

RULE = ("programs = iterator-DSL chains from a typed grammar (12 sources incl. konst iterators with std twins, "
        "13 adapters, 14 consumers via iter::eval!/for_each!, closure forms: inline, typed-return block, pattern "
        "parameter, function path, function-valued expression (evaluation count compared), closures using a variable of the caller that has the name of flat_map's parameter, tuple accumulator destructured by fold's closure, a RangeInclusive source already iterated to exhaustion; plus a const-context collect_const! batch), depth 0..=5; each chain is run on "
        "enumerated inputs (all i32 slices of length <= 5 over {0,1,2} (thorough: {0,1,2,3}) plus four long slices of length 8/13/21/34, 36 range-bound pairs, "
        "numeric take/skip/nth arguments 0..=6 and 9, 20, 35) against the identical std chain; oracle = equality of the Debug-rendered "
        "consumer result; non-trivial = chain with >= 2 adapters of which >= 1 is stateful (take/skip/skip_while/"
        "take_while/enumerate/zip/flat_map/flatten), counted once per distinct chain (its inputs are reported as evaluations)")

STATEFUL = {"take", "skip", "skip_while", "take_while", "enumerate", "zip", "flat_map", "flatten"}
POSDEP = {"take", "skip", "zip"}

PRELUDE = r'''
#![allow(unused, clippy::all)]
use konst::iter;

pub trait H { fn h(&self) -> i32; }
impl H for i32 { fn h(&self) -> i32 { *self } }
impl H for usize { fn h(&self) -> i32 { *self as i32 } }
impl H for u8 { fn h(&self) -> i32 { *self as i32 } }
impl H for char { fn h(&self) -> i32 { *self as i32 } }
impl H for str { fn h(&self) -> i32 { self.len() as i32 * 5 + self.bytes().next().unwrap_or(0) as i32 } }
impl H for [i32] { fn h(&self) -> i32 { self.iter().fold(self.len() as i32, |a, x| a.wrapping_mul(7).wrapping_add(*x)) } }
impl<T: H + ?Sized> H for &T { fn h(&self) -> i32 { (**self).h() } }
impl<A: H, B: H> H for (A, B) { fn h(&self) -> i32 { self.0.h().wrapping_mul(11).wrapping_add(self.1.h()) } }

/// counts how often the argument expressions of adapters / consumers (take, skip, nth counts, zip arguments) are
/// evaluated: std evaluates each once when the chain is built, whatever the input
thread_local! { static ARGC: std::cell::Cell<u32> = const { std::cell::Cell::new(0) }; }
pub fn ac<T>(v: T) -> T { ARGC.with(|c| c.set(c.get() + 1)); v }
pub fn argc() -> u32 { ARGC.with(|c| c.replace(0)) }

/// counts the calls of the closures / functions passed to adapters and consumers: std's adapters are lazy and
/// short-circuiting, and a predicate that is partial or has effects makes the number of calls observable
thread_local! { static CC: std::cell::Cell<u32> = const { std::cell::Cell::new(0) }; }
pub fn cc() { CC.with(|c| c.set(c.get() + 1)); }
pub fn ccount() -> u32 { CC.with(|c| c.replace(0)) }

/// counts how often a function-valued argument expression (`map(fa(hv))`) is evaluated; reported separately from the
/// other argument expressions
thread_local! { static FARGC: std::cell::Cell<u32> = const { std::cell::Cell::new(0) }; }
pub fn fa<F>(f: F) -> F { FARGC.with(|c| c.set(c.get() + 1)); f }
pub fn fargc() -> u32 { FARGC.with(|c| c.replace(0)) }
const FSEP: &str = " #function-argument evaluations: ";
fn norm(s: &str) -> &str { s.split(FSEP).next().unwrap_or(s) }

/// a RangeInclusive that has been iterated to exhaustion, and what konst's into_iter sees of it (start()/end() only)
pub fn exh(a: i32, b: i32) -> std::ops::RangeInclusive<i32> { let mut r = a..=b; for _ in r.by_ref() {} r }
pub fn exh_model(a: i32, b: i32) -> std::ops::RangeInclusive<i32> { if a <= b { b..=b } else { a..=b } }

/// function-path forms
pub fn hv<T: H>(x: T) -> i32 { cc(); x.h().wrapping_mul(3) ^ 1 }
pub fn hp<T: H>(x: &T) -> bool { cc(); x.h().rem_euclid(2) == 0 }
pub fn hpv<T: H>(x: T) -> bool { cc(); x.h().rem_euclid(2) == 0 }
pub fn hfm<T: H>(x: T) -> Option<i32> { cc(); if x.h().rem_euclid(3) == 0 { None } else { Some(x.h().wrapping_add(1)) } }

#[derive(Debug, Clone, Copy)]
pub struct Inp<'a> {
    pub s: &'a [i32], pub t: &'a [i32], pub ss: &'a [&'a [i32]], pub st: &'a str,
    pub a: i32, pub b: i32, pub n0: usize, pub n1: usize,
}

pub struct Chain {
    pub id: usize,
    /// bit 0 s, 1 t, 2 ss, 3 st, 4 a/b, 5 n0, 6 n1
    pub uses: u32,
    pub has_alt: bool,
    /// the source ends by integer overflow (a `u8` RangeFrom): `t` is the std chain with every take(n) replaced by take(n+1)
    pub has_t: bool,
    pub k: fn(&Inp) -> String,
    pub s: fn(&Inp) -> String,
    pub a: fn(&Inp) -> String,
    pub t: fn(&Inp) -> String,
    /// extra alternative model: 0 none; 1 `x` = std chain over what konst sees of an exhausted RangeInclusive (attributed
    /// when k == x); 2 `x` = the konst chain with flat_map's parameter renamed (attributed when x == s); 3 the chain has
    /// function-valued argument expressions (attributed when k and s differ only in their evaluation count)
    pub x_kind: u8,
    pub x: fn(&Inp) -> String,
}

fn slices(vals: &[i32], maxlen: usize) -> Vec<Vec<i32>> {
    let mut out = vec![vec![]];
    let mut prev = vec![vec![]];
    for _ in 0..maxlen {
        let mut next = Vec::new();
        for p in &prev { for v in vals { let mut q: Vec<i32> = p.clone(); q.push(*v); next.push(q); } }
        out.extend(next.iter().cloned());
        prev = next;
    }
    out
}

pub fn run_all(chains: &[Chain]) {
    let nvals: usize = std::env::var("KP_NVALS").ok().and_then(|x| x.parse().ok()).unwrap_or(3);
    let maxlen: usize = std::env::var("KP_MAXLEN").ok().and_then(|x| x.parse().ok()).unwrap_or(5);
    let vals: Vec<i32> = (0..nvals as i32).collect();
    let mut all_s = slices(&vals, maxlen);
    // a few long inputs (beyond the exhaustive bound): lengths 8, 13, 21, 34 with values cycling through the alphabet
    for (k, len) in [8usize, 13, 21, 34].into_iter().enumerate() {
        all_s.push((0..len).map(|i| vals[(i * (k + 1) + i / 3) % vals.len()]).collect());
    }
    let one_s: Vec<Vec<i32>> = vec![vec![1, 0, 2, 1]];
    let all_t: Vec<Vec<i32>> = vec![vec![], vec![2, 1], vec![0, 1, 2, 0, 1, 2, 1], (0..19).map(|i| (i * 5 % 3) as i32).collect()];
    let one_t: Vec<Vec<i32>> = vec![vec![2, 1, 0]];
    let ss_parts: Vec<Vec<i32>> = vec![vec![], vec![1], vec![2, 0], vec![0, 1, 2]];
    let mut all_ss: Vec<Vec<usize>> = vec![vec![]];
    for a in 0..4 { all_ss.push(vec![a]); for b in 0..4 { all_ss.push(vec![a, b]); for c in 0..4 { all_ss.push(vec![a, b, c]); } } }
    let one_ss: Vec<Vec<usize>> = vec![vec![2, 0, 3]];
    let all_st: Vec<&str> = vec!["", "a", ",", "a,b", ",a,,b,", "ab,é,漢", "é", "a,b,c,d"];
    let one_st: Vec<&str> = vec!["a,b"];
    let bounds = [-1i32, 0, 1, 2, 4, 23];
    let mut all_ab = Vec::new();
    for a in bounds { for b in bounds { all_ab.push((a, b)); } }
    let one_ab = vec![(0i32, 3i32)];
    let all_n: Vec<usize> = (0..=6).chain([9, 20, 35]).collect();
    let one_n: Vec<usize> = vec![2];
    let mut total: u64 = 0;
    for c in chains {
        let mut evals: u64 = 0;
        let mut fails: u64 = 0;
        let mut known: u64 = 0;
        let mut documented: u64 = 0;
        let mut multi_item: u64 = 0;
        let mut takex: u64 = 0;
        let mut xalt: u64 = 0;
        let ss_sel = if c.uses & 4 != 0 { &all_ss } else { &one_ss };
        let s_sel = if c.uses & 1 != 0 { &all_s } else { &one_s };
        let t_sel = if c.uses & 2 != 0 { &all_t } else { &one_t };
        let st_sel = if c.uses & 8 != 0 { &all_st } else { &one_st };
        let ab_sel = if c.uses & 16 != 0 { &all_ab } else { &one_ab };
        let n0_sel = if c.uses & 32 != 0 { &all_n } else { &one_n };
        let n1_sel = if c.uses & 64 != 0 { &all_n } else { &one_n };
        'chain: for ssi in ss_sel {
            let ssv: Vec<&[i32]> = ssi.iter().map(|&i| &ss_parts[i][..]).collect();
            for s in s_sel { for t in t_sel { for st in st_sel { for &(a, b) in ab_sel { for &n0 in n0_sel { for &n1 in n1_sel {
                let inp = Inp { s, t, ss: &ssv, st, a, b, n0, n1 };
                let k = std::panic::catch_unwind(|| (c.k)(&inp)).unwrap_or_else(|_| "<panicked>".to_string());
                let o = if c.has_t { std::panic::catch_unwind(|| (c.s)(&inp)).unwrap_or_else(|_| "<panicked>".to_string()) } else { (c.s)(&inp) };
                evals += 1;
                if k.len() > 8 { multi_item += 1; }
                if k == o { continue; }
                let (k, o) = if c.x_kind == 3 {
                    if norm(&k) == norm(&o) {
                        xalt += 1;
                        if xalt <= 2 { println!("XALT {} {:?} k={} s={}", c.id, inp, k, o); }
                        continue;
                    }
                    (norm(&k).to_string(), norm(&o).to_string())
                } else { (k, o) };
                if c.x_kind == 1 || c.x_kind == 2 {
                    let x = std::panic::catch_unwind(|| (c.x)(&inp)).unwrap_or_else(|_| "<panicked>".to_string());
                    if (c.x_kind == 1 && k == x) || (c.x_kind == 2 && x == o) {
                        xalt += 1;
                        if xalt <= 2 { println!("XALT {} {:?} k={} s={} x={}", c.id, inp, k, o, x); }
                        continue;
                    }
                }
                if c.has_t && k == "<panicked>" {
                    // alternative model of the known finding: konst's take(n) pulls n+1 items from its source
                    let t = std::panic::catch_unwind(|| (c.t)(&inp)).unwrap_or_else(|_| "<panicked>".to_string());
                    if t == "<panicked>" {
                        takex += 1;
                        if takex <= 2 { println!("TAKEX {} {:?} k={} s={}", c.id, inp, k, o); }
                        continue;
                    }
                }
                if c.has_alt {
                    let alt = (c.a)(&inp);
                    let alt = if c.x_kind == 3 { norm(&alt).to_string() } else { alt };
                    if k == alt {
                        // attributed by the python side from the chain's structure
                        known += 1;
                        if known <= 2 { println!("ALT {} {:?} k={} s={}", c.id, inp, k, o); }
                        continue;
                    }
                    fails += 1;
                    if fails <= 3 { println!("FAIL {} {:?} k={} s={} a={}", c.id, inp, k, o, alt); }
                } else {
                    fails += 1;
                    if fails <= 3 { println!("FAIL {} {:?} k={} s={}", c.id, inp, k, o); }
                }
                if fails >= 50 { break 'chain; }
            } } } } } }
        }
        total += evals;
        println!("CHAIN {} evals={} fails={} alt_only={} multi={} takex={} xalt={}", c.id, evals, fails, known, multi_item, takex, xalt);
        let _ = documented;
    }
    println!("TOTAL {}", total);
}
'''

# ---------------------------------------------------------------- sources
# name -> (konst expr, std expr, alt(std reversed) expr, item type, de, exact, finite, uses)
SOURCES = {
    "slice": ("inp.s", "inp.s.iter()", "inp.s.iter().rev()", "&i32", True, True, True, 1),
    "range": ("(inp.a..inp.b)", "(inp.a..inp.b)", "(inp.a..inp.b).rev()", "i32", True, True, True, 16),
    "range_inc": ("(inp.a..=inp.b)", "(inp.a..=inp.b)", "(inp.a..=inp.b).rev()", "i32", True, False, True, 16),
    "range_from": ("(inp.a..)", "(inp.a..)", None, "i32", False, False, False, 16),
    "slices2": ("inp.ss", "inp.ss.iter()", "inp.ss.iter().rev()", "&&[i32]", True, True, True, 4),
    "iter_copied": ("konst::slice::iter_copied(inp.s)", "inp.s.iter().copied()", "inp.s.iter().copied().rev()", "i32", True, True, True, 1),
    "windows": ("konst::slice::windows(inp.s, 2)", "inp.s.windows(2)", "inp.s.windows(2).rev()", "&[i32]", True, True, True, 1),
    "chunks": ("konst::slice::chunks(inp.s, 2)", "inp.s.chunks(2)", "inp.s.chunks(2).rev()", "&[i32]", True, True, True, 1),
    "rchunks": ("konst::slice::rchunks(inp.s, 2)", "inp.s.rchunks(2)", "inp.s.rchunks(2).rev()", "&[i32]", True, True, True, 1),
    "chars": ("konst::string::chars(inp.st)", "inp.st.chars()", "inp.st.chars().rev()", "char", True, False, True, 8),
    "split": ("konst::string::split(inp.st, ',')", "inp.st.split(',')", "inp.st.split(',').rev()", "&str", True, False, True, 8),
    "repeat": ("konst::iter::repeat(inp.a)", "std::iter::repeat(inp.a)", None, "i32", False, False, False, 16),
    # ends by overflow after at most 256 items: adapters may come between it and the bounding take
    "range_from_u8": ("((inp.a as u8).wrapping_add(240)..)", "((inp.a as u8).wrapping_add(240)..)", None, "u8", False, False, False, 16),
    # iterated to exhaustion before it becomes the source: std yields nothing more (never reversed here: de = False)
    "range_inc_exhausted": ("exh(inp.a, inp.b)", "exh(inp.a, inp.b)", None, "i32", False, False, True, 16),
    "array_ref": ("&[3i32, 1, 2]", "[3i32, 1, 2].iter()", "[3i32, 1, 2].iter().rev()", "&i32", True, True, True, 0),
    "by_ref_range": ("&(inp.a..inp.b)", "(inp.a..inp.b)", "(inp.a..inp.b).rev()", "i32", True, True, True, 16),
}
SOURCE_WEIGHTS = [("slice", 8), ("range", 4), ("range_inc", 2), ("range_from", 2), ("slices2", 2), ("iter_copied", 2),
                  ("windows", 1), ("chunks", 1), ("rchunks", 1), ("chars", 1), ("split", 1), ("repeat", 1), ("array_ref", 1),
                  ("by_ref_range", 1), ("range_from_u8", 2), ("range_inc_exhausted", 1)]

ZIP_ARGS = {
    # name -> (konst, std, std reversed, item type, exact, finite, de, uses)
    "range": ("0..inp.n1 as i32", "0..inp.n1 as i32", "(0..inp.n1 as i32).rev()", "i32", True, True, True, 64),
    "slice": ("inp.t", "inp.t.iter()", "inp.t.iter().rev()", "&i32", True, True, True, 2),
    "iter_copied": ("konst::slice::iter_copied(inp.t)", "inp.t.iter().copied()", "inp.t.iter().copied().rev()", "i32", True, True, True, 2),
    "range_from": ("10..", "10..", None, "i32", False, False, False, 0),
}
FLAT_INNER = {
    # name -> (closure body konst/std, reversed-body for alt, item type, uses)
    "range": ("0..x.h().rem_euclid(3)", "(0..x.h().rem_euclid(3)).rev()", "i32", 0),
    "slice": ("{ let _ = &x; inp.t }", "{ let _ = &x; inp.t.iter().rev() }", "&i32", 2),
}


class State:
    def __init__(self, src):
        k, s, a, ty, de, exact, finite, uses = SOURCES[src]
        self.ty, self.de, self.exact, self.finite, self.uses = ty, de, exact, finite, uses
        self.reversed = False           # a reversing method has been seen
        self.posdep_before_r = False
        self.enum_before_r = False
        self.seen_posdep = False
        self.seen_enum = False
        self.konst_can_rev = a is not None  # every konst iterator so far supports next_back
        self.overflow_src = src == "range_from_u8"


def tuple_of(a, b):
    return "(%s, %s)" % (a, b)


def apply_adapter(st, ad):
    """Mutates `st`; returns False if the adapter is not applicable (type / std expressibility)."""
    m = ad["m"]
    if not st.finite and m not in ("take", "zip"):
        # an unbounded source must be bounded at once, except the overflow-terminated one: there only
        # element-wise adapters may come first (so that std's chain still ends, by take or by the overflow panic)
        if not (st.overflow_src and m in ("filter", "map", "filter_map", "copied", "enumerate", "skip", "skip_while", "take_while")):
            return False
    if m == "copied":
        if st.ty not in ("&i32", "&&[i32]"):
            return False
        st.ty = st.ty[1:]
    elif m == "enumerate":
        st.ty = tuple_of("usize", st.ty)
        st.de = st.de and st.exact
        st.seen_enum = True
    elif m == "filter":
        st.exact = False
    elif m == "filter_map":
        st.ty = "i32"
        st.exact = False
    elif m == "map":
        f = ad.get("form", 0)
        if f == 4:
            st.ty = tuple_of("i32", st.ty)
        else:
            st.ty = "i32"
    elif m == "flat_map":
        body, rbody, ity, uses = FLAT_INNER[ad["inner"]]
        st.ty = ity
        st.exact = False
        st.uses |= uses
    elif m == "flatten":
        if st.ty not in ("&&[i32]", "&[i32]"):
            return False
        st.ty = "&i32"
        st.exact = False
    elif m == "rev":
        if st.reversed or not st.de or not st.konst_can_rev:
            return False
        st.reversed = True
        st.posdep_before_r = st.seen_posdep
        st.enum_before_r = st.seen_enum
    elif m in ("skip", "take"):
        st.de = st.de and st.exact
        st.uses |= 32
        st.seen_posdep = True
        if m == "take":
            st.finite = True
    elif m in ("skip_while", "take_while"):
        st.de = False
        st.exact = False
    elif m == "zip":
        k, s, r, ity, exact, finite, de, uses = ZIP_ARGS[ad["arg"]]
        if not finite and not st.finite:
            return False
        st.ty = tuple_of(st.ty, ity)
        st.de = st.de and st.exact and exact and de
        st.exact = st.exact and exact
        st.finite = st.finite or finite
        st.uses |= uses
        st.seen_posdep = True
        if r is None and not st.reversed:
            st.konst_can_rev = False
    else:
        raise ValueError(m)
    return True


def apply_consumer(st, c):
    m = c["m"]
    if not st.finite:
        return False
    if m in ("rfind", "rfold", "rposition"):
        if st.reversed or not st.de or not st.konst_can_rev:
            return False
        if m == "rposition" and not st.exact:
            return False
        st.reversed = True
        st.posdep_before_r = st.seen_posdep
        st.enum_before_r = st.seen_enum
    if m == "nth":
        st.uses |= 64
    return True


def typecheck(desc):
    st = State(desc["src"])
    for ad in desc["adapters"]:
        if not apply_adapter(st, ad):
            return None
    if not apply_consumer(st, desc["consumer"]):
        return None
    if desc.get("macro") == "for_each" and desc["consumer"]["m"] != "for_each":
        return None
    return st


# ---------------------------------------------------------------- rendering
def pat_for(ty, form):
    """closure parameter; pattern-parameter form destructures tuples"""
    if form == 3 and ty.startswith("("):
        return "(p, q)", "(p, q)"
    return "x", "x"


_FA = [False]  # function-path arguments are written as the function-valued expression `fa(path)` (counted)


def fp(name):
    return ("fa(%s)" % name) if _FA[0] else name


def x_kind_of(desc):
    """which extra alternative model the chain needs (see `Chain::x_kind` in the prelude)"""
    if desc["src"] == "range_inc_exhausted":
        return 1
    reversing = any(a["m"] == "rev" for a in desc["adapters"]) or desc["consumer"]["m"] in ("rfind", "rfold", "rposition")
    forms = [(a["m"], a.get("form", 0)) for a in desc["adapters"]] + [(desc["consumer"]["m"], desc["consumer"].get("form", 0))]
    if not reversing and desc["src"] != "range_from_u8":
        seen_fm = False
        for m, f in forms:
            if m == "flat_map":
                seen_fm = True
            elif seen_fm and f == 7 and m in ("map", "filter", "skip_while", "take_while", "all", "any", "find", "position"):
                return 2
    if any(f == 2 and m in ("map", "filter", "skip_while", "take_while", "filter_map", "all", "any", "find", "rfind", "position", "rposition", "find_map")
           for m, f in forms):
        return 3
    return 0


def closure(kind, ty, form, by_ref):
    """returns (konst closure text, std closure text). kind in map/pred/fm/mapt"""
    if kind == "map":
        body = "{ cc(); x.h().wrapping_mul(3) ^ 1 }"
        if form == 1:
            return "|x| -> i32 %s" % body, "|x| -> i32 %s" % body
        if form == 2:
            return fp("hv"), fp("hv")
        if form == 3 and ty.startswith("("):
            b = "{ cc(); (p, q).h().wrapping_mul(3) ^ 1 }"
            return "|(p, q)| %s" % b, "|(p, q)| %s" % b
        if form == 4:
            return "|x| { cc(); (x.h().wrapping_add(1), x) }", "|x| { cc(); (x.h().wrapping_add(1), x) }"
        if form == 5:
            return "|x: %s| %s" % (ty, body), "|x: %s| %s" % (ty, body)
        if form == 7:
            body = "{ cc(); x.h().wrapping_mul(3) ^ w.h() }"
        return "|x| %s" % body, "|x| %s" % body
    if kind == "pred":
        body = "{ cc(); x.h().rem_euclid(2) == 0 }"
        if form == 7:
            body = "{ cc(); (x.h() ^ w.h()).rem_euclid(2) == 0 }"
        if form == 1:
            return "|x| -> bool %s" % body, "|x| -> bool %s" % body
        if form == 2:
            return (fp("hp"), fp("hp")) if by_ref else (fp("hpv"), fp("hpv"))
        if form == 6:
            body = "{ cc(); x.h().rem_euclid(3) != 1 }"
        return "|x| %s" % body, "|x| %s" % body
    if kind == "fm":
        body = "{ cc(); if x.h().rem_euclid(3) == 0 { None } else { Some(x.h().wrapping_add(1)) } }"
        if form == 2:
            return fp("hfm"), fp("hfm")
        if form == 1:
            return "|x| -> Option<i32> %s" % body, "|x| -> Option<i32> %s" % body
        return "|x| %s" % body, "|x| %s" % body
    raise ValueError(kind)


def render_chain(desc, flat_w=True):
    """returns (konst method list, std chain suffix, alt chain suffix or None, uses, flags)"""
    st = State(desc["src"])
    xk = x_kind_of(desc)
    _FA[0] = xk == 3
    # flat_map's parameter is called `w`, like a variable of the caller that later closures may use, unless the chain
    # needs another alternative model already
    reversing = any(a["m"] == "rev" for a in desc["adapters"]) or desc["consumer"]["m"] in ("rfind", "rfold", "rposition")
    name_w = flat_w and xk in (0, 2) and not reversing and desc["src"] != "range_from_u8"
    ksrc, ssrc, asrc, *_ = SOURCES[desc["src"]]
    kparts, sparts, aparts = [], [], []
    r_index = None
    for i, ad in enumerate(desc["adapters"]):
        if ad["m"] == "rev":
            r_index = i
    if desc["consumer"]["m"] in ("rfind", "rfold", "rposition"):
        r_index = len(desc["adapters"])
    for i, ad in enumerate(desc["adapters"]):
        m = ad["m"]
        ty = st.ty
        before_r = r_index is not None and i < r_index
        if m == "copied":
            kparts.append("copied()"); sparts.append(".copied()"); aparts.append(".copied()")
        elif m == "enumerate":
            kparts.append("enumerate()"); sparts.append(".enumerate()"); aparts.append(".enumerate()")
        elif m == "filter":
            k, s = closure("pred", ty, ad.get("form", 0), True)
            kparts.append("filter(%s)" % k); sparts.append(".filter(%s)" % s); aparts.append(".filter(%s)" % s)
        elif m == "filter_map":
            k, s = closure("fm", ty, ad.get("form", 0), False)
            kparts.append("filter_map(%s)" % k); sparts.append(".filter_map(%s)" % s); aparts.append(".filter_map(%s)" % s)
        elif m == "map":
            k, s = closure("map", ty, ad.get("form", 0), False)
            kparts.append("map(%s)" % k); sparts.append(".map(%s)" % s); aparts.append(".map(%s)" % s)
        elif m == "flat_map":
            body, rbody, ity, uses = FLAT_INNER[ad["inner"]]
            if name_w:
                body = body.replace("x.h()", "w.h()").replace("&x", "&w")
                kparts.append("flat_map(|w| %s)" % body)
                sparts.append(".flat_map(|w| %s)" % body)
            else:
                kparts.append("flat_map(|x| %s)" % body)
                sparts.append(".flat_map(|x| %s)" % body)
            aparts.append(".flat_map(|x| %s)" % (rbody if before_r else body))
        elif m == "flatten":
            kparts.append("flatten()")
            fix = ".copied()" if ty == "&&[i32]" else ""
            sparts.append(fix + ".flatten()")
            if before_r:
                aparts.append(fix + ".map(|x| x.iter().rev()).flatten()")
            else:
                aparts.append(fix + ".flatten()")
        elif m == "rev":
            kparts.append("rev()"); sparts.append(".rev()")
        elif m in ("skip", "take"):
            kparts.append("%s(ac(inp.n0))" % m); sparts.append(".%s(ac(inp.n0))" % m); aparts.append(".%s(ac(inp.n0))" % m)
        elif m in ("skip_while", "take_while"):
            k, s = closure("pred", ty, ad.get("form", 0), True)
            kparts.append("%s(%s)" % (m, k)); sparts.append(".%s(%s)" % (m, s)); aparts.append(".%s(%s)" % (m, s))
        elif m == "zip":
            k, s, r, *_ = ZIP_ARGS[ad["arg"]]
            kparts.append("zip(ac(%s))" % k); sparts.append(".zip(ac(%s))" % s)
            aparts.append(".zip(ac(%s))" % (r if before_r else s))
        ok = apply_adapter(st, ad)
        assert ok, (desc, ad)
    item_ty = st.ty
    c = desc["consumer"]
    cm = c["m"]
    ok = apply_consumer(st, c)
    assert ok, desc
    form = c.get("form", 0)
    has_alt = r_index is not None
    flags = dict(has_alt=has_alt, posdep=st.posdep_before_r, enum_before_r=st.enum_before_r,
                 rposition=(cm == "rposition"), uses=st.uses, has_t=st.overflow_src, x_kind=xk)
    return kparts, sparts, aparts, ksrc, ssrc, asrc, item_ty, flags


def render_fns(i, desc, std_only=False, _second=False):
    kparts, sparts, aparts, ksrc, ssrc, asrc, item_ty, flags = render_chain(desc, flat_w=not _second)
    c = desc["consumer"]
    cm = c["m"]
    form = c.get("form", 0)
    kmethods = "".join(", " + p for p in kparts)
    # the source expression is counted as well (evaluated exactly once on both sides)
    ksrc = "ac(%s)" % ksrc
    schain = "ac(%s)" % ssrc + "".join(sparts)
    achain = ("ac(%s)" % asrc + "".join(aparts)) if flags["has_alt"] else None
    pk, ps = closure("pred", item_ty, form, False)
    pkr, psr = closure("pred", item_ty, form, True)
    fold_k = "|acc, x| acc.wrapping_mul(31).wrapping_add(x.h())"
    fold_init = "7i32"
    if form == 1:
        fold_k = "|acc: i32, x| -> i32 { acc.wrapping_mul(31).wrapping_add(x.h()) }"
    if form == 2 and cm in ("fold", "rfold"):
        # tuple accumulator destructured by the closure's first parameter
        fold_init = "(7i32, 0u32)"
        fold_k = "|(acc, n), x| (acc.wrapping_mul(31).wrapping_add(x.h()), n + 1)"
    fmk, fms = closure("fm", item_ty, form, False)

    def std_consume(chain, mname):
        if mname == "for_each":
            return "let mut out: Vec<i32> = Vec::new(); for x in %s { out.push(x.h()); } format!(\"{:?}\", out)" % chain
        if mname == "count":
            return "format!(\"{:?}\", %s.count())" % chain
        if mname in ("all", "any"):
            return "format!(\"{:?}\", %s.%s(%s))" % (chain, mname, ps)
        if mname in ("find", "rfind"):
            return "format!(\"{:?}\", %s.%s(%s).map(|x| x.h()))" % (chain, mname, psr)
        if mname == "find_map":
            return "format!(\"{:?}\", %s.find_map(%s))" % (chain, fms)
        if mname in ("position", "rposition"):
            return "format!(\"{:?}\", %s.%s(%s))" % (chain, mname, ps)
        if mname == "nth":
            return "format!(\"{:?}\", %s.nth(ac(inp.n1)).map(|x| x.h()))" % chain
        if mname == "next":
            return "format!(\"{:?}\", %s.next().map(|x| x.h()))" % chain
        if mname in ("fold", "rfold"):
            if form == 2:
                return "format!(\"{:?}\", %s.%s(%s, %s))" % (chain, mname, fold_init, fold_k)
            return "format!(\"{:?}\", %s.%s(7i32, |acc, x| acc.wrapping_mul(31).wrapping_add(x.h())))" % (chain, mname)
        raise ValueError(mname)

    if cm == "for_each" and desc.get("macro") == "for_each":
        kbody = ("let mut out: Vec<i32> = Vec::new(); iter::for_each!{x in %s%s => out.push(x.h()); } format!(\"{:?}\", out)"
                 % (ksrc, kmethods))
    elif cm == "for_each":
        kbody = ("let mut out: Vec<i32> = Vec::new(); iter::eval!(%s%s, for_each(|x| out.push(x.h()))); format!(\"{:?}\", out)"
                 % (ksrc, kmethods))
    elif cm == "count":
        kbody = "format!(\"{:?}\", iter::eval!(%s%s, count()))" % (ksrc, kmethods)
    elif cm in ("all", "any", "position", "rposition"):
        kbody = "format!(\"{:?}\", iter::eval!(%s%s, %s(%s)))" % (ksrc, kmethods, cm, pk)
    elif cm in ("find", "rfind"):
        kbody = "format!(\"{:?}\", iter::eval!(%s%s, %s(%s)).map(|x| x.h()))" % (ksrc, kmethods, cm, pkr)
    elif cm == "find_map":
        kbody = "format!(\"{:?}\", iter::eval!(%s%s, find_map(%s)))" % (ksrc, kmethods, fmk)
    elif cm == "nth":
        kbody = "format!(\"{:?}\", iter::eval!(%s%s, nth(ac(inp.n1))).map(|x| x.h()))" % (ksrc, kmethods)
    elif cm == "next":
        kbody = "format!(\"{:?}\", iter::eval!(%s%s, next()).map(|x| x.h()))" % (ksrc, kmethods)
    elif cm in ("fold", "rfold"):
        kbody = "format!(\"{:?}\", iter::eval!(%s%s, %s(%s, %s)))" % (ksrc, kmethods, cm, fold_init, fold_k)
    else:
        raise ValueError(cm)
    sbody = std_consume(schain, cm)
    tbody = std_consume(schain.replace(".take(ac(inp.n0))", ".take(ac(inp.n0) + 1)"), cm) if flags["has_t"] else "String::new()"
    fwd = {"rfind": "find", "rfold": "fold", "rposition": "position"}.get(cm, cm)
    abody = std_consume(achain, fwd) if achain else "String::new()"
    comparable = desc["src"] != "range_from_u8" and not any(a["m"] in ("take", "zip") for a in desc["adapters"])

    def counted(body):
        # the result string carries the number of argument-expression evaluations of this run; `w` is a variable of the
        # caller that closures of form 7 use
        # ... and, for chains whose laziness is the same in both implementations by construction (no take: the
        # listed finding pulls one more item; no zip), the number of closure calls
        calls = "ccount()" if comparable else "{ ccount(); 0 }"
        return ("let w: i32 = inp.a.wrapping_add(1000); argc(); fargc(); ccount(); let r = { %s }; "
                "format!(\"{} #argument evaluations: {} #closure calls: {}{}{}\", r, argc(), %s, FSEP, fargc())" % (body, calls))

    if _second:
        return kbody
    xbody = "String::new()"
    if flags["x_kind"] == 1:
        xbody = std_consume("ac(exh_model(inp.a, inp.b))" + "".join(sparts), cm)
    elif flags["x_kind"] == 2:
        xbody = "String::new()" if std_only else render_fns(i, desc, std_only, _second=True)
        render_chain(desc)  # restore the module state of the first rendering

    src = []
    if std_only:
        kbody = sbody  # the twin: is the chain itself well-typed?
    src.append("fn k_%d(inp: &Inp) -> String { %s }" % (i, counted(kbody)))
    src.append("fn s_%d(inp: &Inp) -> String { %s }" % (i, counted(sbody)))
    src.append("fn a_%d(inp: &Inp) -> String { %s }" % (i, counted(abody)))
    src.append("fn t_%d(inp: &Inp) -> String { %s }" % (i, counted(tbody)))
    src.append("fn x_%d(inp: &Inp) -> String { %s }" % (i, counted(xbody)))
    return "\n".join(src), flags


def render_program(descs, std_only=False):
    fns, table, flags_all = [], [], []
    for i, d in enumerate(descs):
        f, flags = render_fns(i, d, std_only)
        fns.append("// %s\n%s" % (json.dumps(d, sort_keys=True), f))
        flags_all.append(flags)
        table.append("Chain { id: %d, uses: %d, has_alt: %s, has_t: %s, k: k_%d, s: s_%d, a: a_%d, t: t_%d, x_kind: %d, x: x_%d }," %
                     (i, flags["uses"], "true" if flags["has_alt"] else "false", "true" if flags["has_t"] else "false", i, i, i, i, flags["x_kind"], i))
    src = PRELUDE + "\n" + "\n\n".join(fns) + "\n\nfn main() {\n    let chains = vec![\n        " + \
        "\n        ".join(table) + "\n    ];\n    std::panic::set_hook(Box::new(|_| {}));\n    run_all(&chains);\n}\n"
    return src, flags_all


# ---------------------------------------------------------------- generation
ADAPTERS = ["copied", "enumerate", "filter", "filter_map", "flat_map", "flatten", "map", "rev", "skip", "skip_while",
            "take", "take_while", "zip"]
CONSUMERS = ["for_each", "all", "any", "count", "find", "find_map", "rfind", "fold", "rfold", "next", "nth", "position",
             "rposition"]


def weighted(rng, pairs):
    total = sum(w for _, w in pairs)
    x = rng.uniform(0, total)
    for v, w in pairs:
        x -= w
        if x <= 0:
            return v
    return pairs[-1][0]


def random_adapter(rng, m=None):
    m = m or rng.choice(ADAPTERS)
    ad = {"m": m}
    if m in ("filter", "skip_while", "take_while"):
        ad["form"] = rng.choice([0, 0, 1, 2, 6, 7])
    elif m == "filter_map":
        ad["form"] = rng.choice([0, 0, 1, 2])
    elif m == "map":
        ad["form"] = rng.choice([0, 0, 1, 2, 3, 4, 5, 7])
    elif m == "flat_map":
        ad["inner"] = rng.choice(["range", "slice"])
    elif m == "zip":
        ad["arg"] = rng.choice(["range", "slice", "iter_copied", "range_from"])
    return ad


def gen_chain(rng, want_adapter=None, want_consumer=None, max_depth=5):
    for _ in range(400):
        src = weighted(rng, SOURCE_WEIGHTS)
        depth = rng.choice([0, 1, 2, 2, 3, 3, 3, 4, 4, 5])
        desc = {"src": src, "adapters": [], "consumer": None, "macro": "eval"}
        st = State(src)
        ok = True
        placed = want_adapter is None
        tries = 0
        while len(desc["adapters"]) < depth and tries < 40:
            tries += 1
            m = None
            if not placed and rng.random() < 0.5:
                m = want_adapter
            if not st.finite and not (st.overflow_src and rng.random() < 0.6):
                m = rng.choice(["take", "zip"])
            ad = random_adapter(rng, m)
            if not st.finite and ad["m"] == "zip" and ad["arg"] == "range_from":
                ad["arg"] = "slice"
            trial = State(src)
            good = all(apply_adapter(trial, a) for a in desc["adapters"] + [ad])
            if good:
                desc["adapters"].append(ad)
                st = trial
                if ad["m"] == want_adapter:
                    placed = True
        if not st.finite:
            ad = {"m": "take"}
            desc["adapters"].append(ad)
            if not apply_adapter(st, ad):
                continue
        if not placed:
            continue
        cm = want_consumer or rng.choice(CONSUMERS)
        desc["consumer"] = {"m": cm, "form": rng.choice([0, 0, 1, 2, 6, 7]) if cm in ("all", "any", "find", "rfind", "position", "rposition") else rng.choice([0, 1, 2]) if cm in ("find_map", "fold", "rfold") else rng.choice([0, 1])}
        if cm == "for_each":
            desc["macro"] = rng.choice(["for_each", "eval"])
        if typecheck(desc) is None:
            continue
        return desc
    return None


def corpus(rng):
    """pairwise coverage: every adapter x every consumer at least once"""
    out = []
    for a in ADAPTERS:
        for c in CONSUMERS:
            d = gen_chain(rng, want_adapter=a, want_consumer=c)
            if d is not None:
                out.append(d)
    # hand-written chains of interest
    out.extend([
        {"src": "slice", "adapters": [{"m": "take"}, {"m": "rev"}], "consumer": {"m": "for_each"}, "macro": "for_each"},
        {"src": "slice", "adapters": [{"m": "enumerate"}, {"m": "rev"}], "consumer": {"m": "for_each"}, "macro": "eval"},
        {"src": "slice", "adapters": [{"m": "rev"}, {"m": "enumerate"}, {"m": "skip"}], "consumer": {"m": "for_each"}, "macro": "eval"},
        {"src": "range", "adapters": [{"m": "skip"}, {"m": "take"}], "consumer": {"m": "rposition", "form": 0}, "macro": "eval"},
        {"src": "slices2", "adapters": [{"m": "flatten"}, {"m": "rev"}, {"m": "zip", "arg": "slice"}], "consumer": {"m": "for_each"}, "macro": "eval"},
        {"src": "slice", "adapters": [{"m": "flat_map", "inner": "range"}, {"m": "take"}, {"m": "skip_while", "form": 0}], "consumer": {"m": "count"}, "macro": "eval"},
        {"src": "range_from", "adapters": [{"m": "zip", "arg": "slice"}, {"m": "map", "form": 3}], "consumer": {"m": "fold", "form": 1}, "macro": "eval"},
        {"src": "range_from_u8", "adapters": [{"m": "take"}], "consumer": {"m": "for_each"}, "macro": "for_each"},
        {"src": "range_from_u8", "adapters": [{"m": "filter", "form": 0}, {"m": "take"}], "consumer": {"m": "for_each"}, "macro": "eval"},
        {"src": "range_from_u8", "adapters": [{"m": "skip"}, {"m": "map", "form": 0}, {"m": "take"}], "consumer": {"m": "count"}, "macro": "eval"},
    ])
    return [d for d in out if typecheck(d) is not None]


def nontrivial(desc):
    ms = [a["m"] for a in desc["adapters"]]
    return len(ms) >= 2 and any(m in STATEFUL for m in ms)


def simplifications(desc):
    out = []
    for i in range(len(desc["adapters"])):
        d = json.loads(json.dumps(desc))
        del d["adapters"][i]
        out.append(d)
    if desc["consumer"]["m"] != "for_each":
        d = json.loads(json.dumps(desc))
        d["consumer"] = {"m": "for_each"}
        d["macro"] = "eval"
        out.append(d)
    for i, a in enumerate(desc["adapters"]):
        if a.get("form", 0) != 0:
            d = json.loads(json.dumps(desc))
            d["adapters"][i]["form"] = 0
            out.append(d)
    return [d for d in out if typecheck(d) is not None]


# ---------------------------------------------------------------- const-context batch (collect_const!)
def gen_const_chain(rng):
    """items are always i32 (or tuples mapped back to i32) so closures are plain const arithmetic"""
    n = rng.randint(0, 6)
    arr = [rng.randint(0, 5) for _ in range(n)]
    src = rng.choice(["arr", "range", "range_inc", "range_from"])
    if src == "arr":
        lit = ("[" + ", ".join("%di32" % v for v in arr) + "]") if arr else "[0i32; 0]"
        k = "&%s, copied()" % lit
        s = "%s.iter().copied()" % lit
        de = True
        exact = True
        klen = n
    elif src == "range":
        a, b = rng.randint(-2, 3), rng.randint(-2, 6)
        k = "%d..%d" % (a, b) if a >= 0 else "(%d)..%d" % (a, b)
        s = "(%d..%d)" % (a, b)
        de = True
        exact = True
        klen = max(0, b - a)
    elif src == "range_inc":
        a, b = rng.randint(0, 3), rng.randint(0, 6)
        k = "%d..=%d" % (a, b)
        s = "(%d..=%d)" % (a, b)
        de = True
        exact = False
    else:
        a = rng.randint(0, 9)
        t = rng.randint(0, 5)
        k = "%di32.., take(%d)" % (a, t)
        s = "(%di32..).take(%d)" % (a, t)
        de = False
        exact = False
    if src in ("range_inc", "range_from"):
        klen = None
    kparts, sparts = [], []
    rev_used = False
    posdep = False
    plan = [rng.choice(["map", "filter", "filter_map", "take", "skip", "take_while", "skip_while", "enumerate", "zip", "flat_map", "rev"])
            for _ in range(rng.randint(0, 4))]
    if rng.random() < 0.3:
        # planted shape: a zip (equal lengths whenever the length is still known) somewhere before a rev
        at = rng.randint(0, min(len(plan), 2))
        plan[at:at] = ["zip_eq"] + (["map"] if rng.random() < 0.3 else []) + ["rev"]
    for m in plan:
        force_eq = m == "zip_eq"
        if force_eq:
            m = "zip"
        if m == "map":
            kparts.append("map(|x| x * 3 + 1)"); sparts.append(".map(|x| x * 3 + 1)")
        elif m == "filter":
            kparts.append("filter(|x| *x % 2 == 0)"); sparts.append(".filter(|x| *x % 2 == 0)"); exact = False; klen = None
        elif m == "filter_map":
            kparts.append("filter_map(|x| if x % 3 == 0 { None } else { Some(x + 10) })")
            sparts.append(".filter_map(|x| if x % 3 == 0 { None } else { Some(x + 10) })"); exact = False; klen = None
        elif m in ("take", "skip"):
            c = rng.randint(0, 4)
            kparts.append("%s(%d)" % (m, c)); sparts.append(".%s(%d)" % (m, c)); de = de and exact; posdep = True
            if klen is not None:
                klen = min(klen, c) if m == "take" else max(0, klen - c)
        elif m in ("take_while", "skip_while"):
            c = rng.randint(0, 9)
            kparts.append("%s(|x| *x < %d)" % (m, c)); sparts.append(".%s(|x| *x < %d)" % (m, c)); de = False; exact = False; klen = None
        elif m == "enumerate":
            kparts.append("enumerate(), map(|(i, x)| i as i32 * 100 + x)")
            sparts.append(".enumerate().map(|(i, x)| i as i32 * 100 + x)")
            de = de and exact
            posdep = True  # numbering is order dependent: keep it away from a later rev in this batch
        elif m == "zip":
            c = rng.randint(0, 4)
            equal = klen is not None and exact and (force_eq or rng.random() < 0.5)
            if equal:
                # same length on both sides: the pairing is the same from either end, so a later rev() is comparable with std
                c = klen
            arg = rng.choice(["range", "slice"])
            if arg == "range":
                ka = sa = "5..%d" % (5 + c)
                deref = "b"
            else:
                vals = ", ".join("%di32" % rng.randint(0, 9) for _ in range(c))
                lit = "[%s]" % vals if c else "[0i32; 0]"
                ka = "&%s" % lit
                sa = "%s.iter()" % lit
                deref = "*b"
            kparts.append("zip(%s), map(|(a, b)| a * 7 + %s)" % (ka, deref)); sparts.append(".zip(%s).map(|(a, b)| a * 7 + %s)" % (sa, deref))
            if not equal:
                de = de and exact; posdep = True
                klen = min(klen, c) if klen is not None else None
        elif m == "flat_map":
            kparts.append("flat_map(|x| x..x + 2)"); sparts.append(".flat_map(|x| x..x + 2)"); exact = False; klen = None
        elif m == "rev":
            if rev_used or not de or posdep:
                continue
            rev_used = True
            kparts.append("rev()"); sparts.append(".rev()")
    kexpr = "iter::collect_const!(i32 => %s%s)" % (k, "".join(", " + p for p in kparts))
    sexpr = "%s%s.collect::<Vec<i32>>()" % (s, "".join(sparts))
    return kexpr, sexpr


def render_const_program(pairs):
    lines = ["#![allow(unused, clippy::all)]", "use konst::iter;", "fn main() {", "    let mut fails = 0u32;"]
    for i, (k, s) in enumerate(pairs):
        lines.append("    { const K: &[i32] = &%s; let s: Vec<i32> = %s; if K != &s[..] { fails += 1; println!(\"FAIL %d k={:?} s={:?}\", K, s); } }" % (k, s, i))
    lines.append("    println!(\"TOTAL %d\");" % len(pairs))
    lines.append("}")
    return "\n".join(lines) + "\n"


# ---------------------------------------------------------------- engine entry
def parse_output(out):
    chains, fails, alts, total = {}, {}, {}, 0
    for line in out.splitlines():
        if line.startswith("CHAIN "):
            parts = line.split()
            cid = int(parts[1])
            kv = dict(p.split("=") for p in parts[2:])
            chains[cid] = {k: int(v) for k, v in kv.items()}
        elif line.startswith("FAIL "):
            cid = int(line.split()[1])
            fails.setdefault(cid, []).append(line)
        elif line.startswith("TAKEX "):
            pass
        elif line.startswith("ALT "):
            cid = int(line.split()[1])
            alts.setdefault(cid, []).append(line)
        elif line.startswith("TOTAL "):
            total = int(line.split()[1])
    return chains, fails, alts, total


def run_batch(name, descs, tier, timeout):
    src, flags = render_program(descs)
    driver.write_bin(name, src)
    ok, out = driver.build_bin(name)
    if not ok:
        return None, out, flags
    env = {"KP_NVALS": "3" if tier == "quick" else "4", "KP_MAXLEN": "5"}
    rc, out, dt = driver.run_bin(name, timeout=timeout, env=env)
    if rc != 0:
        return None, out, flags
    return parse_output(out), out, flags


def rejected_chains(descs, limit=3):
    """The batch does not build: which chains does konst's macro reject although the identical std chain compiles?
    Returns (list of (desc, compiler message), None) or (None, reason) when a chain's std twin does not compile either
    (generator error)."""
    import re
    bad, stack = [], [list(range(len(descs)))]
    while stack and len(bad) < limit:
        idx = stack.pop()
        src, _ = render_program([descs[i] for i in idx])
        driver.write_bin("c10_bis", src)
        ok, out = driver.build_bin("c10_bis")
        if ok:
            continue
        if len(idx) == 1:
            src2, _ = render_program([descs[idx[0]]], std_only=True)
            driver.write_bin("c10_bis", src2)
            ok2, out2 = driver.build_bin("c10_bis")
            if not ok2:
                return None, "std twin of %s does not compile:\n%s" % (json.dumps(descs[idx[0]]), out2[-2500:])
            msg = " | ".join(re.findall(r"error(?:\[E\d+\])?: .*", out)[:3])
            bad.append((descs[idx[0]], msg))
        else:
            h = len(idx) // 2
            stack.append(idx[h:])
            stack.append(idx[:h])
    return bad, None


def classify(desc, flags, chain_stats, fails, alts, known_sigs):
    """returns (violations list, known_hits, documented_hits)"""
    v = list(fails)
    known = documented = 0
    n_tx = chain_stats.get("takex", 0)
    if n_tx:
        if "take-pulls-one-extra-item" in known_sigs:
            known += n_tx
        else:
            v.append("konst panicked where std's chain ends normally; std with take(n+1) panics too (take pulls one extra item): %d inputs" % n_tx)
    n_x = chain_stats.get("xalt", 0)
    if n_x:
        sig, what = {1: ("exhausted-range-inclusive-yields-last-item", "konst's result equals std's chain over `end..=end`: an exhausted RangeInclusive source yields its last item again"),
                     2: ("flat-map-parameter-visible-in-later-closures", "konst agrees with std once flat_map's closure parameter is renamed: the parameter shadows the caller's variable of the same name in later closures"),
                     3: ("function-argument-evaluated-per-item", "results agree, only the number of evaluations of a function-valued argument expression differs (konst evaluates it once per item)")}[flags["x_kind"]]
        if sig in known_sigs:
            known += n_x
        else:
            v.append("%s: %d inputs" % (what, n_x))
    n_alt = chain_stats.get("alt_only", 0)
    if n_alt:
        if flags["posdep"]:
            if "posdep-adapter-before-reversal" in known_sigs:
                known = n_alt
            else:
                v.extend(alts)
        elif flags["enum_before_r"] or flags["rposition"]:
            documented = n_alt
        else:
            v.extend(alts)
    return v, known, documented


def shrink(desc, tier, timeout, known_sigs):
    cur = desc
    for _round in range(4):
        cands = simplifications(cur)
        if not cands:
            break
        res, out, flags = run_batch("c10_shrink", cands, "quick", timeout)
        if res is None:
            break
        chains, fails, alts, total = res
        failing = []
        for i, d in enumerate(cands):
            v, _, _ = classify(d, flags[i], chains.get(i, {}), fails.get(i, []), alts.get(i, []), known_sigs)
            if v:
                failing.append((len(d["adapters"]), i, d, v))
        if not failing:
            break
        failing.sort(key=lambda x: (x[0], x[1]))
        cur = failing[0][2]
        last_v = failing[0][3]
    return cur


def run(prop, tier, seed, out, timeout, **kw):
    t0 = time.time()
    rng = random.Random(seed * 1000003 + 10)
    known = driver.load_known(prop)
    known_sigs = {s for s, _ in known}
    log = []
    batches = []
    crng = random.Random(4242)  # the committed corpus is seed independent
    batches.append(("c10_corpus", corpus(crng)))
    release = driver.PROFILE == "release"
    n_random = (250 if release else 500) if tier == "quick" else (2500 if release else 5000)
    per = 250

    def fits_profile(d):
        # without overflow checks the `240u8..` source wraps instead of ending in a panic: only chains that bound it
        # at once (take / zip with a finite argument) are guaranteed to end there
        return not release or d["src"] != "range_from_u8" or (d["adapters"] and d["adapters"][0]["m"] in ("take", "zip"))

    batches[0] = (batches[0][0], [d for d in batches[0][1] if fits_profile(d)])
    rnd = []
    while len(rnd) < n_random:
        d = gen_chain(rng)
        if d is not None and fits_profile(d):
            rnd.append(d)
    for i in range(0, len(rnd), per):
        batches.append(("c10_rand%d" % (i // per), rnd[i:i + per]))
    evaluations = 0
    programs = 0
    nontriv = set()
    samples = []
    labels = {"known_finding_hits": 0, "documented_exception_hits": 0, "chains_with_reversal": 0, "take_extra_pull_hits": 0}
    violations = []
    for name, descs in batches:
        res, outp, flags = run_batch(name, descs, tier, timeout)
        if res is None and "could not compile" in outp:
            # a chain that is valid on std iterators (the generator tracks types) but rejected by konst's macro
            bad, why = rejected_chains(descs)
            if bad is None or not bad:
                return 2, "[gen_chain] batch %s failed to build (%s):\n%s" % (name, why or "no single chain fails", outp[-4000:])
            for d, msg in bad:
                violations.append((d, ["FAIL the chain compiles on std iterators but konst's macro rejects it: " + msg[:400]]))
            programs += len(descs)
            continue
        if res is None:
            return 2, "[gen_chain] batch %s failed to build/run:\n%s" % (name, outp[-5000:])
        chains, fails, alts, total = res
        evaluations += total
        programs += len(descs)
        for i, d in enumerate(descs):
            stc = chains.get(i, {})
            v, kn, doc = classify(d, flags[i], stc, fails.get(i, []), alts.get(i, []), known_sigs)
            labels["known_finding_hits"] += kn
            labels["take_extra_pull_hits"] += stc.get("takex", 0)
            if stc.get("xalt", 0):
                kname = "extra_model_%d_hits" % flags[i]["x_kind"]
                labels[kname] = labels.get(kname, 0) + stc["xalt"]
            if flags[i]["x_kind"]:
                kname = "chains_needing_extra_model_%d" % flags[i]["x_kind"]
                labels[kname] = labels.get(kname, 0) + 1
            labels["documented_exception_hits"] += doc
            if flags[i]["has_alt"]:
                labels["chains_with_reversal"] += 1
            for a in d["adapters"]:
                labels["adapter_" + a["m"]] = labels.get("adapter_" + a["m"], 0) + 1
            labels["consumer_" + d["consumer"]["m"]] = labels.get("consumer_" + d["consumer"]["m"], 0) + 1
            if nontrivial(d) and stc.get("multi", 0) > 0:
                key = json.dumps(d, sort_keys=True)
                if key not in nontriv:
                    nontriv.add(key)
                    if len(samples) < 12 and len(nontriv) % 17 == 1:
                        samples.append(d)
            if v:
                violations.append((d, v))
    # const-context batch
    crng2 = random.Random(seed * 7 + 3)
    pairs = [gen_const_chain(crng2) for _ in range(120 if tier == "quick" else 600)]
    driver.write_bin("c10_const", render_const_program(pairs))
    ok, outp = driver.build_bin("c10_const")
    if not ok:
        # which items cannot be evaluated / are rejected although their std twin compiles (shared with the C11 engine)
        import gen_collect
        vs, problem = gen_collect.judge_build_failure([("i32", k, s_, "") for k, s_ in pairs], timeout, outp)
        if problem:
            return 2, "[gen_chain] collect_const! batch failed to build:\n" + problem
        for it, why in vs:
            violations.append(({"const_chain": it[1], "std": it[2]}, ["FAIL " + why]))
    else:
        rc, outp, dt = driver.run_bin("c10_const", timeout=timeout)
        if rc != 0:
            return 2, "[gen_chain] const batch run failed:\n" + outp[-3000:]
        for line in outp.splitlines():
            if line.startswith("FAIL "):
                i = int(line.split()[1])
                violations.append(({"const_chain": pairs[i][0], "std": pairs[i][1]}, [line]))
    evaluations += len(pairs)
    programs += len(pairs)
    labels["collect_const_programs"] = len(pairs)
    text = []
    rc = 0
    for d, v in violations[:5]:
        small = d
        if "src" in d:
            small = shrink(d, tier, timeout, known_sigs)
        src = ""
        if "src" in small:
            src, _ = render_fns(0, small)
        path = driver.save_replay(prop, ENGINE, "chain", {"property": prop, "engine": ENGINE, "case": small, "original": d,
                                                          "evidence": v[:3], "rendered": src})
        text.append("  chain %s\n    %s" % (json.dumps(small, sort_keys=True), "\n    ".join(v[:2])))
        text.append("VIOLATION property=%s replay=%s" % (prop, path))
        rc = 1
    for sig, desc in known:
        text.append("KNOWN-FINDING: property=%s %s (signature=%s, hits this run=%d)" % (prop, desc, sig, {"posdep-adapter-before-reversal": labels["known_finding_hits"] - labels["take_extra_pull_hits"] - sum(labels.get("extra_model_%d_hits" % q, 0) for q in (1, 2, 3)),
                     "take-pulls-one-extra-item": labels["take_extra_pull_hits"],
                     "exhausted-range-inclusive-yields-last-item": labels.get("extra_model_1_hits", 0),
                     "flat-map-parameter-visible-in-later-closures": labels.get("extra_model_2_hits", 0),
                     "function-argument-evaluated-per-item": labels.get("extra_model_3_hits", 0)}.get(sig, 0)))
    wall = time.time() - t0
    text.append("[%s %s] programs=%d evaluations=%d distinct_nontrivial=%d violations=%d wall=%.1fs" %
                (prop, ENGINE, programs, evaluations, len(nontriv), len(violations), wall))
    driver.write_evidence(out, prop, ENGINE, tier, seed, wall, evaluations, len(nontriv), RULE, samples, len(violations),
                          programs=programs, labels=labels,
                          assumptions=["std's Iterator adapters are the oracle", "closures are pure, so evaluation-count differences (take pulling one extra item) are invisible here"])
    return rc, "\n".join(text) + "\n"


def replay(prop, path, **kw):
    body = json.load(open(path))
    d = body["case"]
    known_sigs = {s for s, _ in driver.load_known(prop)}
    if "src" not in d:
        return 1, "const chain replay: %s\n" % json.dumps(d)
    res, outp, flags = run_batch("c10_replay", [d], "quick", 600)
    if res is None:
        return 2, outp[-3000:]
    chains, fails, alts, total = res
    v, kn, doc = classify(d, flags[0], chains.get(0, {}), fails.get(0, []), alts.get(0, []), known_sigs)
    if v:
        return 1, "\n".join(v[:3]) + "\nVIOLATION property=%s replay=%s\n" % (prop, path)
    return 0, "replay: chain agrees with std (known hits %d, documented %d)\n" % (kn, doc)

"""C11 (program half): control flow inside the user closure of array::map!/map_!/from_fn!/from_fn_! and
collect_const!-style misuse can never produce an array with an unwritten element."""
import json
import random
import time

import driver

ENGINE = "gen_closure_exits"

RULE = ("programs = array::map! / map_! / from_fn! / from_fn_! (typed and untyped forms) whose closure performs an early exit at "
        "element k of n (n in 1..=4): break, continue, break/continue to a label outside the macro, return, `?`, panic!, "
        "or none (control); closure parameter forms `x`, `x: T`, `mut x`, `ref mut x` (the closure changes its own parameter) and `ref x`; element types: a Copy stamp struct and a ledger-tracked Drop type; the closure counts its calls and "
        "panics after 10 000 calls so that looping is observed as a counted panic; the calling crate shadows assert!/debug_assert!/assert_eq!/assert_ne!/unreachable! with macros that never panic; each program is compiled alone (a compile "
        "error is an allowed outcome) and, if it compiles, run under catch_unwind; oracle: the outcome must be one of {does not "
        "compile, panics, leaves the macro without producing an array (return / ? / labelled break), returns an array whose every "
        "element carries the magic stamp and the index the closure wrote}; a returned array with any other content is a "
        "violation; controls (no exit) must return std's array (with `ref` / `ref mut` parameters a compile error is allowed as "
        "well); non-trivial = an exit at 0 < k < n or at k = n-1, or a Drop element type, or a closure that mutates its "
        "parameter, counted per distinct program")

PRELUDE = r'''
#![allow(unused, unreachable_code, unused_macros, clippy::all)]
// a hostile (but legal) calling crate: the assertion macros are shadowed by versions that never panic.  macro_rules!
// bodies resolve unqualified macro names at the call site, so a library macro whose safety rests on `assert!` must name
// it by a path of its own
macro_rules! assert { ($($t:tt)*) => { () }; }
macro_rules! debug_assert { ($($t:tt)*) => { () }; }
macro_rules! assert_eq { ($($t:tt)*) => { () }; }
macro_rules! assert_ne { ($($t:tt)*) => { () }; }
macro_rules! debug_assert_eq { ($($t:tt)*) => { () }; }
macro_rules! unreachable { ($($t:tt)*) => { () }; }
// ... and it has a trait in scope that gives array references by-value methods named like slice methods: method lookup
// on a `&[T; N]` receiver finds a by-value trait method on `&[T; N]` before it unsizes to `<[T]>::len`, so a library macro
// that writes `$array.len()` on its argument gets the caller's answer
pub trait HostileLen { fn len(self) -> usize; fn is_empty(self) -> bool; }
impl<T, const N: usize> HostileLen for &[T; N] { fn len(self) -> usize { N / 2 } fn is_empty(self) -> bool { N > 0 } }
impl<T, const N: usize> HostileLen for &mut [T; N] { fn len(self) -> usize { N / 2 } fn is_empty(self) -> bool { N > 0 } }
use std::cell::Cell;
const MAGIC: u64 = 0x5AFE_C0DE_D00D_F00D;
#[derive(Debug, Clone, Copy)]
pub struct Stamp { pub magic: u64, pub idx: u64 }
impl Stamp { pub fn new(i: usize) -> Stamp { Stamp { magic: MAGIC, idx: i as u64 } } }
#[derive(Debug)]
pub struct Tr { pub magic: u64, pub idx: u64 }
impl Tr { pub fn new(i: usize) -> Tr { Tr { magic: MAGIC, idx: i as u64 } } }
impl Drop for Tr { fn drop(&mut self) { if self.magic != MAGIC { BAD_DROP.with(|b| b.set(b.get() + 1)); } self.magic = 0xDEAD; } }
thread_local! { pub static BAD_DROP: Cell<u32> = Cell::new(0); pub static CALLS: Cell<u32> = Cell::new(0); }
pub fn tick() { CALLS.with(|c| { c.set(c.get() + 1); if c.get() > 10_000 { panic!("counted loop: closure called more than 10000 times"); } }); }
#[derive(Debug)]
pub enum Out { Left, Array(Vec<(u64, u64)>) }
pub fn view_s<const N: usize>(a: [Stamp; N]) -> Out { Out::Array(a.iter().map(|s| (s.magic, s.idx)).collect()) }
pub fn view_t<const N: usize>(a: [Tr; N]) -> Out { Out::Array(a.iter().map(|s| (s.magic, s.idx)).collect()) }
pub fn judge(id: usize, allowed_outer: bool, r: std::thread::Result<Option<Out>>, n: usize, control: bool) {
    let bad = BAD_DROP.with(|b| b.replace(0));
    CALLS.with(|c| c.set(0));
    if bad > 0 { println!("FAIL {} dropped {} value(s) without the magic stamp (unwritten slot dropped)", id, bad); }
    match r {
        Err(_) => { if control { println!("FAIL {} control program panicked", id); } else { println!("OUT {} panic", id); } }
        Ok(None) | Ok(Some(Out::Left)) => { if control { println!("FAIL {} control left early", id); } else { println!("OUT {} left", id); } }
        Ok(Some(Out::Array(v))) => {
            let ok = v.len() == n && v.iter().enumerate().all(|(i, (m, x))| *m == MAGIC && (*x == i as u64 || (allowed_outer && *x == 99)));
            if ok { println!("OUT {} array", id); } else { println!("FAIL {} returned an array with an unwritten / foreign element: {:x?}", id, v); }
        }
    }
}
'''

MACROS = ["map", "map_", "from_fn", "from_fn_typed", "from_fn_", "from_fn__typed"]
EXITS = ["none", "break", "continue", "break_outer", "continue_outer", "return", "question", "panic"]


def exit_code(kind, n, elem):
    ctor = "Stamp::new" if elem == "stamp" else "Tr::new"
    if kind == "none":
        return ""
    if kind == "break":
        return "break;"
    if kind == "continue":
        return "continue;"
    if kind == "break_outer":
        return "break 'outer [%s];" % ", ".join("%s(99)" % ctor for _ in range(n))
    if kind == "continue_outer":
        return "continue 'outer;"
    if kind == "return":
        return "return Some(Out::Left);"
    if kind == "question":
        return "None::<u8>?;"
    if kind == "panic":
        return "panic!(\"closure panic\");"
    raise ValueError(kind)


PARAMS = ["plain", "typed", "mut_bump", "ref_mut_bump", "ref_read"]


def param_forms(var, param, is_map):
    """(closure parameter, statements binding `v` to the value the closure received)"""
    ty = "u32" if is_map else "usize"
    if param == "plain":
        return var, "let v = %s;" % var
    if param == "typed":
        return "%s: %s" % (var, ty), "let v = %s;" % var
    if param == "mut_bump":  # the closure owns its parameter: changing it must not disturb the macro's loop
        return "mut %s" % var, "let v = %s; %s += 1;" % (var, var)
    if param == "ref_mut_bump":
        return "ref mut %s" % var, "let v = *%s; *%s += 1;" % (var, var)
    if param == "ref_read":
        return "ref %s" % var, "let v = *%s;" % var
    raise ValueError(param)


def render(i, macro, exit_kind, n, k, elem, param="plain"):
    ty = "Stamp" if elem == "stamp" else "Tr"
    ctor = "Stamp::new" if elem == "stamp" else "Tr::new"
    view = "view_s" if elem == "stamp" else "view_t"
    ex = exit_code(exit_kind, n, elem)
    if macro in ("map", "map_"):
        inp = "[%s]" % ", ".join("%du32" % (10 + j) for j in range(n))
        pat, bind = param_forms("x", param, True)
        cond = "if v == %du32 { %s }" % (10 + k, ex) if ex else ""
        body = "{ tick(); %s %s %s((v - 10) as usize) }" % (bind, cond, ctor)
        call = "konst::array::%s!(%s, |%s| %s)" % (macro, inp, pat, body)
    else:
        pat, bind = param_forms("i", param, False)
        cond = "if v == %d { %s }" % (k, ex) if ex else ""
        body = "{ tick(); %s %s %s(v) }" % (bind, cond, ctor)
        base = "from_fn" if macro.startswith("from_fn") and not macro.startswith("from_fn_") else "from_fn_"
        if macro in ("from_fn_", "from_fn__typed"):
            base = "from_fn_"
        else:
            base = "from_fn"
        if macro.endswith("typed"):
            call = "konst::array::%s!([%s; %d] => |%s| %s)" % (base, ty, n, pat, body)
        else:
            call = "konst::array::%s!(|%s| %s)" % (base, pat, body)
    fn = ("fn p_%d() -> Option<Out> {\n    let mut rounds = 0u32;\n    let arr: [%s; %d] = 'outer: loop {\n        rounds += 1;\n        if rounds > 3 { return Some(Out::Left); }\n"
          "        break %s;\n    };\n    Some(%s(arr))\n}" % (i, ty, n, call, view))
    return fn


def all_programs(seed, tier):
    out = []
    for macro in MACROS:
        for ex in EXITS:
            for elem in ("stamp", "tr"):
                for n in ((1, 2, 3) if tier == "quick" else (1, 2, 3, 4)):
                    ks = range(n) if ex != "none" else [0]
                    for k in ks:
                        out.append((macro, ex, n, k, elem, "plain"))
    # closure-parameter forms (binding modes): the closure may rebind / mutate its own parameter, as with
    # <[T;N]>::map and core::array::from_fn; the array must still be std's (or the program must not compile)
    for macro in MACROS:
        for param in PARAMS[1:]:
            for elem in ("stamp", "tr"):
                for n in (1, 2, 3, 4):
                    for ex, k in (("none", 0), ("panic", n - 1), ("continue", 0)):
                        out.append((macro, ex, n, k, elem, param))
    return out


def run(prop, tier, seed, out, timeout, miri=False, **kw):
    t0 = time.time()
    ok, outp = driver.build_lib()
    if not ok:
        return 2, "[gen_closure_exits] building konst failed:\n" + outp[-4000:]
    progs = all_programs(seed, tier)
    if miri:
        progs = [p for p in progs if p[2] <= 2 and p[1] != "continue"]
    singles = [PRELUDE + render(0, *p) + "\n" for p in progs]
    v = driver.rustc_verdicts(singles)
    compiling = [i for i in range(len(progs)) if v[i][0] == 0]
    labels = {"does_not_compile": len(progs) - len(compiling)}
    violations = []
    for i, p in enumerate(progs):
        if p[1] == "none" and p[5] in ("plain", "typed", "mut_bump") and v[i][0] != 0:
            return 2, "[gen_closure_exits] control program does not compile (harness error):\n%s\n%s" % (singles[i], v[i][1][-2000:])
    parts = [PRELUDE]
    calls = []
    for j, i in enumerate(compiling):
        macro, ex, n, k, elem, param = progs[i]
        parts.append(render(j, *progs[i]))
        calls.append("    judge(%d, %s, std::panic::catch_unwind(p_%d), %d, %s);" % (j, "true" if ex == "break_outer" else "false", j, n, "true" if ex == "none" else "false"))
        labels["param_" + param] = labels.get("param_" + param, 0) + 1
    parts.append("fn main() {\n    std::panic::set_hook(Box::new(|_| {}));\n" + "\n".join(calls) + "\n    println!(\"DONE\");\n}\n")
    name = "c11_exits" + ("_miri" if miri else "")
    driver.write_bin(name, "\n\n".join(parts))
    if miri:
        rc, outr, dt = driver.sh(["cargo", "+nightly", "miri", "run", "--offline", "--bin", name], cwd=driver.CRATE, timeout=timeout,
                                 env=dict(driver.ENV, MIRIFLAGS="-Zmiri-disable-isolation"))
        if rc != 0 and "Undefined Behavior" in outr:
            path = driver.save_replay(prop, ENGINE, "miri", {"property": prop, "engine": ENGINE, "log": outr[-6000:]})
            return 1, outr[-3000:] + "\nVIOLATION property=%s replay=%s\n" % (prop, path)
    else:
        okb, outb = driver.build_bin(name)
        if not okb:
            return 2, "[gen_closure_exits] batch does not build although every program builds alone:\n" + outb[-3000:]
        rc, outr, dt = driver.run_bin(name, timeout=timeout)
    crashed = None
    if not miri and rc in (-11, -6, -4, -7, 139, 134, 132, 135) and "DONE" not in outr:
        # the generated programs are safe Rust: a memory fault / abort can only come from the macro expansion.  The
        # programs run in order and each prints one OUT/FAIL line, so the one after the last line is the culprit.
        done_ids = [int(l.split()[1]) for l in outr.splitlines() if l.startswith(("OUT ", "FAIL ")) and l.split()[1].isdigit()]
        j = (max(done_ids) + 1) if done_ids else 0
        if j < len(compiling):
            crashed = (progs[compiling[j]], "FAIL %d the program was killed by signal %s while evaluating this macro call (safe code only)" % (j, -rc if rc < 0 else rc - 128))
    elif rc != 0 or "DONE" not in outr:
        return 2, "[gen_closure_exits] run failed (rc %s):\n%s" % (rc, outr[-3000:])
    for line in outr.splitlines():
        if line.startswith("OUT "):
            kind = line.split()[2]
            labels["outcome_" + kind] = labels.get("outcome_" + kind, 0) + 1
        elif line.startswith("FAIL "):
            j = int(line.split()[1])
            violations.append((progs[compiling[j]], line))
    if crashed:
        violations.append(crashed)
    nontriv = {p for p in progs if (p[1] != "none" and (p[3] > 0 or p[3] == p[2] - 1)) or p[4] == "tr" or p[5] in ("mut_bump", "ref_mut_bump")}
    samples = [{"macro": p[0], "exit": p[1], "n": p[2], "k": p[3], "elem": p[4], "param": p[5]} for p in progs if p in nontriv][::37][:10]
    text = []
    rc = 0
    for p, line in violations[:5]:
        path = driver.save_replay(prop, ENGINE, "exit", {"property": prop, "engine": ENGINE, "case": {"macro": p[0], "exit": p[1], "n": p[2], "k": p[3], "elem": p[4], "param": p[5]},
                                                       "evidence": [line], "rendered": render(0, *p)})
        text.append("  %s: %s" % (p, line[:300]))
        text.append("VIOLATION property=%s replay=%s" % (prop, path))
        rc = 1
    wall = time.time() - t0
    eng = ENGINE + ("-miri" if miri else "")
    text.append("[%s %s] programs=%d compiled=%d outcomes=%s violations=%d wall=%.1fs" % (prop, eng, len(progs), len(compiling), {k: v for k, v in labels.items()}, len(violations), wall))
    driver.write_evidence(out, prop, eng, tier, seed, wall, len(progs), len(nontriv), RULE, samples, len(violations),
                          programs=len(progs), labels=labels, exhaustive=True)
    return rc, "\n".join(text) + "\n"


def replay(prop, path, **kw):
    body = json.load(open(path))
    if "rendered" not in body:
        return 1, body.get("log", "")[-3000:]
    c = body["case"]
    src = PRELUDE + body["rendered"] + "\nfn main() { std::panic::set_hook(Box::new(|_| {})); judge(0, %s, std::panic::catch_unwind(p_0), %d, %s); }\n" % (
        "true" if c["exit"] == "break_outer" else "false", c["n"], "true" if c["exit"] == "none" else "false")
    driver.write_bin("c11_replay", src)
    ok, outp = driver.build_bin("c11_replay")
    if not ok:
        return 0, "replay: the program no longer compiles (an allowed outcome)\n"
    rc, outr, dt = driver.run_bin("c11_replay")
    if "FAIL" in outr:
        return 1, outr + "\nVIOLATION property=%s replay=%s\n" % (prop, path)
    return 0, "replay: outcome is allowed now: " + outr

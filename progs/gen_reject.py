"""C17 engine: misused macros must be rejected at compile time; the same program with the offending
element removed must compile.  Every program is compiled alone (metadata only) by rustc against the
konst rlib + proc-macro built from /repo's current tree; only the exit status is used."""
import json
import os
import random
import time

import driver

ENGINE = "gen_reject"

RULE = ("programs = per guard a generated family of invalid macro invocations, each paired with a control that differs only "
        "in the offending element (G1 destructure! of a type with impl Drop; G2 destructure! of a reference; G3 wrong "
        "field/element count; G4 `..` in struct/tuple-struct/tuple; G5 two reversing iterator methods; G6 unsupported "
        "method names; G7 arguments passed to argument-less methods; G8 parser_method! with a non-literal pattern; G9 "
        "parser_method! match form without the `_ =>` branch; G10 lifetime laundering through the by-value macros; G11 destructure! of a union, counted for C01 only; "
        "G3/G4/G8/G9 also inside a calling crate that defines its own `compile_error!`; G8 includes range patterns that begin with a literal and non-literals "
        "forwarded by a caller's macro_rules! as expr / pat / tt fragments) across the syntactic shapes the macro accepts (braced/tuple "
        "struct, tuple, array; path vs type form; with/without type annotation; generic/concrete; field counts); oracle = "
        "rustc verdict: invalid program must fail to compile, control must compile (a failing control is a harness error, "
        "exit 2); non-trivial = every distinct (guard, shape, variant) pair whose control compiled")

HEAD = "#![allow(unused, dead_code, clippy::all)]\n"


def fields(n, ty="T"):
    return ["f%d" % i for i in range(n)]


# ------------------------------------------------------------------ G1: Drop
def g1(rng):
    out = []
    for shape in ("braced", "tuple_struct"):
        for nf in (0, 1, 2, 3):
            for generic in (False, True):
                for form in ("path", "type"):
                    for annot in (False, True):
                        tparams = "<T>" if generic else ""
                        fty = "T" if generic else rng.choice(["String", "u32", "Vec<u8>"])
                        tyname = "S" + tparams
                        conc = tyname
                        fs = fields(nf)
                        if shape == "braced":
                            decl = "pub struct S%s { %s }" % (tparams, ", ".join("pub %s: %s" % (f, fty) for f in fs))
                            pat_inner = "{%s}" % ", ".join(fs)
                        else:
                            decl = "pub struct S%s(%s);" % (tparams, ", ".join("pub %s" % fty for _ in fs))
                            pat_inner = "(%s)" % ", ".join(fs)
                        if generic and nf == 0:
                            decl = decl.replace("pub struct S<T>", "pub struct S<T>").replace("{ }", "{ pub p: core::marker::PhantomData<T> }")
                            if shape == "braced":
                                decl = "pub struct S<T> { pub p: core::marker::PhantomData<T> }"
                                pat_inner = "{p}"
                            else:
                                decl = "pub struct S<T>(pub core::marker::PhantomData<T>);"
                                pat_inner = "(p)"
                        if form == "path":
                            head = "S" + pat_inner
                        else:
                            # type form: `Path<T> {..}` / `Path<T>, (..)`
                            head = (tyname + " " + pat_inner) if shape == "braced" else (tyname + ", " + pat_inner)
                            if not generic:
                                head = ("self::S " + pat_inner) if shape == "braced" else ("self::S, " + pat_inner)
                        ann = (": " + tyname) if annot else ""
                        body = "konst::destructure!{%s%s = v}" % (head, ann)
                        fn = "pub fn f%s(v: %s) { %s }" % (tparams, tyname, body)
                        drop_impl = "impl%s Drop for %s { fn drop(&mut self) {} }" % (tparams, tyname)
                        name = "G1/%s/fields=%d/%s/%s/%s" % (shape, nf, "generic" if generic else "concrete", form, "annot" if annot else "noannot")
                        inv = HEAD + decl + "\n" + drop_impl + "\n" + fn + "\n"
                        ctl = HEAD + decl + "\n" + fn + "\n"
                        out.append((name, inv, ctl))
    return out


# ------------------------------------------------------------------ G2: references
def g2(rng):
    out = []
    decl = "pub struct B { pub a: u32, pub b: String }\npub struct Tu(pub u32, pub String);\n"
    shapes = {
        "braced": ("B{a, b}", "B", "B"),
        "braced_type": ("self::B {a, b}", "B", "B"),
        "tuple_struct": ("Tu(a, b)", "Tu", "Tu"),
        "tuple_struct_type": ("self::Tu, (a, b)", "Tu", "Tu"),
        "tuple": ("(a, b)", "(u32, String)", "(u32, String)"),
        "tuple3": ("(a, b, c)", "(u32, String, u8)", "(u32, String, u8)"),
        "array": ("[a, b]", "[String; 2]", "[String; 2]"),
        "array_rest": ("[a, rest @ ..]", "[String; 3]", "[String; 3]"),
    }
    # true type-form paths (`Path<T> {..}`, `Path::<T> {..}`, `Path<T>, (..)`): a separate arm of the macro
    declg = "pub struct GB<T> { pub a: T, pub b: String }\npub struct GT<T>(pub T, pub String);\n"
    gshapes = {
        "generic_braced_type": ("GB<u8> {a, b}", "GB<u8>"),
        "generic_braced_turbofish": ("GB::<u8> {a, b}", "GB<u8>"),
        "generic_tuple_struct_type": ("GT<u8>, (a, b)", "GT<u8>"),
        "generic_tuple_struct_turbofish": ("GT::<u8>, (a, b)", "GT<u8>"),
        "generic_braced_type_param": ("GB<T> {a, b}", "GB<T>"),
        "generic_tuple_struct_type_param": ("GT<T>, (a, b)", "GT<T>"),
    }
    for sname, (pat, ty) in gshapes.items():
        gen = "<T>" if "<T>" in ty else ""
        for refk in ("&", "&mut ", "&&", "&mut &mut "):
            for annot in (False, True):
                ann_inv = (": %s%s" % (refk, ty)) if annot else ""
                ann_ctl = (": %s" % ty) if annot else ""
                inv = HEAD + declg + "pub fn f%s(v: %s%s) { konst::destructure!{%s%s = v} }\n" % (gen, refk, ty, pat, ann_inv)
                ctl = HEAD + declg + "pub fn f%s(v: %s) { konst::destructure!{%s%s = v} }\n" % (gen, ty, pat, ann_ctl)
                out.append(("G2/%s/%s/%s" % (sname, refk.strip().replace(" ", ""), "annot" if annot else "noannot"), inv, ctl))
        # a reference reached through a local binding (no annotation possible on the expression)
        inv = HEAD + declg + "pub fn f%s(mut v: %s) { let r = &mut v; konst::destructure!{%s = r} }\n" % (gen, ty, pat)
        ctl = HEAD + declg + "pub fn f%s(v: %s) { let r = v; konst::destructure!{%s = r} }\n" % (gen, ty, pat)
        out.append(("G2/%s/local-&mut" % sname, inv, ctl))
    # patterns without any field / element applied to a reference (the macro's special-cased empty arms)
    decle = "pub struct E {}\npub struct Et();\n"
    eshapes = {"empty_braced": ("E {}", "E"), "empty_tuple_struct": ("Et()", "Et"), "empty_tuple": ("()", "()"), "empty_array": ("[]", "[String; 0]"),
               "empty_braced_type": ("self::E {}", "E")}
    for sname, (pat, ty) in eshapes.items():
        for refk in ("&", "&mut "):
            for annot in (False, True):
                ann_inv = (": %s%s" % (refk, ty)) if annot else ""
                ann_ctl = (": %s" % ty) if annot else ""
                inv = HEAD + decle + "pub fn f(v: %s%s) { konst::destructure!{%s%s = v} }\n" % (refk, ty, pat, ann_inv)
                ctl = HEAD + decle + "pub fn f(v: %s) { konst::destructure!{%s%s = v} }\n" % (ty, pat, ann_ctl)
                out.append(("G2/%s/%s/%s" % (sname, refk.strip(), "annot" if annot else "noannot"), inv, ctl))
    for sname, (pat, ty, _) in shapes.items():
        for refk in ("&", "&mut "):
            for annot in (False, True):
                ann_inv = (": %s%s" % (refk, ty)) if annot else ""
                ann_ctl = (": %s" % ty) if annot else ""
                inv = HEAD + decl + "pub fn f(v: %s%s) { konst::destructure!{%s%s = v} }\n" % (refk, ty, pat, ann_inv)
                ctl = HEAD + decl + "pub fn f(v: %s) { konst::destructure!{%s%s = v} }\n" % (ty, pat, ann_ctl)
                out.append(("G2/%s/%s/%s" % (sname, refk.strip(), "annot" if annot else "noannot"), inv, ctl))
        # reference hidden behind a generic parameter / a deref of a Box is fine; a `&&T` too
        inv = HEAD + decl + "pub fn f(v: &&%s) { konst::destructure!{%s = v} }\n" % (ty, pat)
        ctl = HEAD + decl + "pub fn f(v: %s) { konst::destructure!{%s = v} }\n" % (ty, pat)
        out.append(("G2/%s/&&" % sname, inv, ctl))
    return out


# ------------------------------------------------------------------ G3: wrong count
def g3(rng):
    out = []
    for n in (1, 2, 3, 4):
        fs = fields(n)
        # braced struct
        decl = "pub struct B { %s }\n" % ", ".join("pub %s: String" % f for f in fs)
        ctl = HEAD + decl + "pub fn f(v: B) { konst::destructure!{B{%s} = v} }\n" % ", ".join(fs)
        for drop_i in range(n):
            less = [f for i, f in enumerate(fs) if i != drop_i]
            inv = HEAD + decl + "pub fn f(v: B) { konst::destructure!{B{%s} = v} }\n" % ", ".join(less)
            out.append(("G3/braced/%d-fields/missing-%d" % (n, drop_i), inv, ctl))
        inv = HEAD + decl + "pub fn f(v: B) { konst::destructure!{B{%s, extra} = v} }\n" % ", ".join(fs)
        out.append(("G3/braced/%d-fields/extra" % n, inv, ctl))
        # tuple struct
        decl = "pub struct Tu(%s);\n" % ", ".join("pub String" for _ in fs)
        ctl = HEAD + decl + "pub fn f(v: Tu) { konst::destructure!{Tu(%s) = v} }\n" % ", ".join(fs)
        inv = HEAD + decl + "pub fn f(v: Tu) { konst::destructure!{Tu(%s) = v} }\n" % ", ".join(fs[:-1])
        out.append(("G3/tuple_struct/%d-fields/missing-last" % n, inv, ctl))
        inv = HEAD + decl + "pub fn f(v: Tu) { konst::destructure!{Tu(%s, extra) = v} }\n" % ", ".join(fs)
        out.append(("G3/tuple_struct/%d-fields/extra" % n, inv, ctl))
        # tuple (with and without type annotation naming the real type)
        ty = "(%s,)" % ", ".join("String" for _ in fs)
        for annot in (False, True):
            ann = (": " + ty) if annot else ""
            ctl = HEAD + "pub fn f(v: %s) { konst::destructure!{(%s,)%s = v} }\n" % (ty, ", ".join(fs), ann)
            if n > 1:
                inv = HEAD + "pub fn f(v: %s) { konst::destructure!{(%s,)%s = v} }\n" % (ty, ", ".join(fs[:-1]), ann)
                out.append(("G3/tuple/%d-elems/missing-last/%s" % (n, "annot" if annot else "noannot"), inv, ctl))
            inv = HEAD + "pub fn f(v: %s) { konst::destructure!{(%s, extra)%s = v} }\n" % (ty, ", ".join(fs), ann)
            out.append(("G3/tuple/%d-elems/extra/%s" % (n, "annot" if annot else "noannot"), inv, ctl))
        # array without `..`
        ty = "[String; %d]" % n
        ctl = HEAD + "pub fn f(v: %s) { konst::destructure!{[%s] = v} }\n" % (ty, ", ".join(fs))
        inv = HEAD + "pub fn f(v: %s) { konst::destructure!{[%s, extra] = v} }\n" % (ty, ", ".join(fs))
        out.append(("G3/array/%d-elems/extra" % n, inv, ctl))
        if n > 1:
            inv = HEAD + "pub fn f(v: %s) { konst::destructure!{[%s] = v} }\n" % (ty, ", ".join(fs[:-1]))
            out.append(("G3/array/%d-elems/missing-last" % n, inv, ctl))
        # array: two `rest @ ..` patterns / prefix longer than the array
        inv = HEAD + "pub fn f(v: %s) { konst::destructure!{[%s, more, rest @ ..] = v} }\n" % (ty, ", ".join(fs))
        ctl2 = HEAD + "pub fn f(v: %s) { konst::destructure!{[%s, rest @ ..] = v} }\n" % (ty, ", ".join(fs))
        out.append(("G3/array/%d-elems/prefix-too-long" % n, inv, ctl2))
    return out


# ------------------------------------------------------------------ G4: `..` in struct / tuple struct / tuple
def g4(rng):
    out = []
    declb = "pub struct B { pub a: String, pub b: String, pub c: String }\n"
    ctl = HEAD + declb + "pub fn f(v: B) { konst::destructure!{B{a, b, c} = v} }\n"
    for name, pat in (("end", "B{a, b, ..}"), ("only", "B{..}"), ("middle", "B{a, .., c}"), ("start", "B{.., c}")):
        inv = HEAD + declb + "pub fn f(v: B) { konst::destructure!{%s = v} }\n" % pat
        out.append(("G4/braced/%s" % name, inv, ctl))
    declt = "pub struct Tu(pub String, pub String, pub String);\n"
    ctl = HEAD + declt + "pub fn f(v: Tu) { konst::destructure!{Tu(a, b, c) = v} }\n"
    for name, pat in (("end", "Tu(a, b, ..)"), ("only", "Tu(..)"), ("middle", "Tu(a, .., c)"), ("start", "Tu(.., c)")):
        inv = HEAD + declt + "pub fn f(v: Tu) { konst::destructure!{%s = v} }\n" % pat
        out.append(("G4/tuple_struct/%s" % name, inv, ctl))
    ty = "(String, String, String)"
    ctl = HEAD + "pub fn f(v: %s) { konst::destructure!{(a, b, c) = v} }\n" % ty
    for name, pat in (("end", "(a, b, ..)"), ("only", "(..)"), ("middle", "(a, .., c)"), ("start", "(.., c)")):
        inv = HEAD + "pub fn f(v: %s) { konst::destructure!{%s = v} }\n" % (ty, pat)
        out.append(("G4/tuple/%s" % name, inv, ctl))
        # control: the array form, where `..` is allowed
        arr = pat.replace("(", "[").replace(")", "]")
        out.append(("G4/array-control/%s" % name, None, HEAD + "pub fn f(v: [String; 3]) { konst::destructure!{%s = v} }\n" % arr))
    return out


# ------------------------------------------------------------------ G5-G7: iterator DSL
def iter_wrap(kind, body):
    """kind: for_each | eval | collect_const"""
    if kind == "for_each":
        return HEAD + "pub fn f(s: &[u8]) -> u32 { let mut n = 0u32; konst::iter::for_each!{x in s, %s => n += *x as u32; } n }\n" % body
    if kind == "eval":
        return HEAD + "pub fn f(s: &[u8]) -> usize { konst::iter::eval!(s, %s) }\n" % body
    return HEAD + "pub const A: [&u8; 3] = konst::iter::collect_const!(&u8 => &[1u8, 2, 3], %s);\n" % body


def g5(rng):
    out = []
    adapters_rev = ["rev()"]
    cons_rev = ["rfind(|x| **x == 2)", "rposition(|x| *x == 2)", "rfold(0usize, |a, x| a + *x as usize)"]
    # two rev() adapters in every macro
    for kind, tail, ctl_tail in (("for_each", "", ""), ("eval", ", count()", ", count()"), ("collect_const", "", "")):
        inv = iter_wrap(kind, "rev(), rev()" + tail)
        ctl = iter_wrap(kind, "rev()" + ctl_tail)
        out.append(("G5/rev,rev/%s" % kind, inv, ctl))
        inv = iter_wrap(kind, "rev(), copied(), map(|x| x), rev()" + tail) if kind != "collect_const" else iter_wrap(kind, "rev(), filter(|_| true), rev()")
        ctl = iter_wrap(kind, "rev(), copied(), map(|x| x)" + ctl_tail) if kind != "collect_const" else iter_wrap(kind, "rev(), filter(|_| true)")
        if kind == "for_each":
            inv = HEAD + "pub fn f(s: &[u8]) -> u32 { let mut n = 0u32; konst::iter::for_each!{x in s, rev(), copied(), rev() => n += x as u32; } n }\n"
            ctl = HEAD + "pub fn f(s: &[u8]) -> u32 { let mut n = 0u32; konst::iter::for_each!{x in s, rev(), copied() => n += x as u32; } n }\n"
        out.append(("G5/rev,..,rev/%s" % kind, inv, ctl))
    # rev() followed by a reversing consumer (eval only)
    for c in cons_rev:
        ret = "Option<&u8>" if c.startswith("rfind") else ("Option<usize>" if c.startswith("rposition") else "usize")
        inv = HEAD + "pub fn f(s: &[u8]) -> %s { konst::iter::eval!(s, rev(), %s) }\n" % (ret, c)
        ctl = HEAD + "pub fn f(s: &[u8]) -> %s { konst::iter::eval!(s, %s) }\n" % (ret, c)
        out.append(("G5/rev,%s" % c.split("(")[0], inv, ctl))
        ctl2 = HEAD + "pub fn f(s: &[u8]) -> %s { konst::iter::eval!(s, rev(), %s) }\n" % (ret, c[1:])
        out.append(("G5/rev,%s/forward-control" % c.split("(")[0], inv, ctl2))
    return out


def g6(rng):
    out = []
    bad_adapters = ["cycle()", "chain(s)", "step_by(2)", "peekable()", "fuse()", "inspect(|_| ())", "scan(0, |a, x| Some(x))",
                    "mapp(|x| x)", "filtr(|_| true)", "Rev()", "take_whil(|_| true)", "last()", "sum()"]
    for b in bad_adapters:
        name = b.split("(")[0]
        inv = iter_wrap("eval", b + ", count()")
        ctl = iter_wrap("eval", "map(|x| x), count()")
        out.append(("G6/adapter/%s/eval" % name, inv, ctl))
        inv = iter_wrap("for_each", b)
        ctl = iter_wrap("for_each", "map(|x| x)")
        out.append(("G6/adapter/%s/for_each" % name, inv, ctl))
    bad_consumers = ["sum()", "last()", "max()", "min()", "product()", "collect()", "cnt()", "nth_back(1)"]
    for b in bad_consumers:
        name = b.split("(")[0]
        inv = HEAD + "pub fn f(s: &[u8]) { let _ = konst::iter::eval!(s, copied(), %s); }\n" % b
        ctl = HEAD + "pub fn f(s: &[u8]) { let _ = konst::iter::eval!(s, copied(), count()); }\n"
        out.append(("G6/consumer/%s" % name, inv, ctl))
    # consumers inside adapter-only macros
    for c in ["count()", "next()", "any(|_| true)", "position(|_| true)", "fold(0, |a, _| a)", "find(|_| true)", "nth(1)"]:
        name = c.split("(")[0]
        inv = HEAD + "pub fn f(s: &[u8]) { konst::iter::for_each!{_x in s, %s => } }\n" % c
        ctl = HEAD + "pub fn f(s: &[u8]) { konst::iter::for_each!{_x in s, copied() => } }\n"
        out.append(("G6/consumer-in-for_each/%s" % name, inv, ctl))
        inv = HEAD + "pub const A: [&u8; 3] = konst::iter::collect_const!(&u8 => &[1u8, 2, 3], %s);\n" % c
        ctl = HEAD + "pub const A: [&u8; 3] = konst::iter::collect_const!(&u8 => &[1u8, 2, 3], filter(|_| true));\n"
        out.append(("G6/consumer-in-collect_const/%s" % name, inv, ctl))
    return out


def g7(rng):
    out = []
    for m, arg in (("copied", "1"), ("copied", "|x| x"), ("enumerate", "0"), ("enumerate", "1usize"), ("rev", "true"), ("rev", "()"),
                   ("flatten", "1")):
        if m == "flatten":
            inv = HEAD + "pub fn f(s: &[&[u8]]) -> usize { konst::iter::eval!(s, flatten(%s), count()) }\n" % arg
            ctl = HEAD + "pub fn f(s: &[&[u8]]) -> usize { konst::iter::eval!(s, flatten(), count()) }\n"
        else:
            inv = iter_wrap("eval", "%s(%s), count()" % (m, arg))
            ctl = iter_wrap("eval", "%s(), count()" % m)
        out.append(("G7/%s(%s)/eval" % (m, arg), inv, ctl))
        if m != "flatten":
            inv = HEAD + "pub fn f(s: &[u8]) { konst::iter::for_each!{_x in s, %s(%s) => } }\n" % (m, arg)
            ctl = HEAD + "pub fn f(s: &[u8]) { konst::iter::for_each!{_x in s, %s() => } }\n" % m
            out.append(("G7/%s(%s)/for_each" % (m, arg), inv, ctl))
    for m, arg, ret in (("count", "1", "usize"), ("count", "|x| x", "usize"), ("next", "1", "Option<&u8>"), ("next", "()", "Option<&u8>")):
        inv = HEAD + "pub fn f(s: &[u8]) -> %s { konst::iter::eval!(s, %s(%s)) }\n" % (ret, m, arg)
        ctl = HEAD + "pub fn f(s: &[u8]) -> %s { konst::iter::eval!(s, %s()) }\n" % (ret, m)
        out.append(("G7/%s(%s)" % (m, arg), inv, ctl))
    return out


# ------------------------------------------------------------------ G8/G9: parser_method!
MATCH_METHODS = ["strip_prefix", "strip_suffix", "find_skip", "rfind_skip"]
TRIM_METHODS = ["trim_start_matches", "trim_end_matches"]


def pm_match(method, pats, with_default=True, extra_decl=""):
    branches = "".join("%s => %d, " % (p, i) for i, p in enumerate(pats))
    default = "_ => 99" if with_default else ""
    return (HEAD + "use konst::{Parser, parser_method};\n" + extra_decl +
            "pub fn f(mut p: Parser<'_>) -> (u32, Parser<'_>) { let r = parser_method!{p, %s; %s%s}; (r, p) }\n" % (method, branches, default))


def pm_trim(method, pats, extra_decl=""):
    return (HEAD + "use konst::{Parser, parser_method};\n" + extra_decl +
            "pub fn f(mut p: Parser<'_>) -> Parser<'_> { parser_method!{p, %s; %s}; p }\n" % (method, " | ".join(pats)))


def g8(rng):
    out = []
    decl = "const K: &str = \"ab\";\n"
    bad = [("const-item", "K"), ("variable", "v"), ("byte-string", "b\"ab\""), ("char", "'a'"), ("integer", "7"),
           ("format", "format!(\"ab\")"), ("path-const", "self::K"), ("ref-literal", "&\"ab\""), ("c-string", "c\"ab\""),
           ("byte", "b'a'"), ("raw-byte-string", "br\"ab\""), ("parenthesized", "(\"ab\")"),
           # non-literals hidden inside concat!(..): the whole pattern must still be rejected
           ("concat-const-last", "concat!(\"a\", K)"), ("concat-const-first", "concat!(K, \"b\")"), ("concat-variable", "concat!(\"a\", v)"),
           ("concat-underscore", "concat!(\"a\", _)"), ("concat-nested-const", "concat!(\"a\", concat!(K))"), ("concat-char", "concat!(\"a\", 'b')"),
           ("concat-only-const", "concat!(K)"), ("concat-path-const", "concat!(\"a\", self::K, \"b\")")]
    # patterns that begin with a string literal but are not one: range patterns (which rustc itself rejects for strings)
    bad += [("range-inclusive", "\"ab\"..=\"b\""), ("range-to-const", "\"ab\"..=K"), ("range-from", "\"ab\".."), ("range-to-int", "\"ab\"..=5u8"),
            ("range-reversed", "\"z\"..=\"ab\"")]
    # the same hidden in what a caller's macro_rules! forwards: `$e:expr` with a tail after the literal inside concat!,
    # `$q:pat` holding a range pattern
    for m in MATCH_METHODS + TRIM_METHODS:
        for name, kind, bad_arg, good_arg, use in (("forwarded-expr-with-tail-in-concat", "expr", "\"b\".len()", "\"b\"", "concat!(\"a\", $e)"),
                                                  ("forwarded-expr-with-tail", "expr", "\"b\".len()", "\"b\"", "$e"),
                                                  ("forwarded-pat-range", "pat", "\"ab\"..=\"b\"", "\"ab\" | \"b\"", "$e"),
                                                  ("forwarded-pat-range-to-const", "pat", "\"ab\"..=K", "\"ab\"", "$e"),
                                                  ("forwarded-tt-const", "tt", "K", "\"ab\"", "$e")):
            if m in MATCH_METHODS:
                mac = "macro_rules! fw { ($p:ident, $e:%s) => { parser_method!{$p, %s; \"x\" => 0, %s => 1, _ => 99} }; }\n" % (kind, m, use)
                body = "pub fn f(mut p: Parser<'_>) -> (u32, Parser<'_>) { let r = fw!(p, %s); (r, p) }\n"
            else:
                mac = "macro_rules! fw { ($p:ident, $e:%s) => { parser_method!{$p, %s; \"x\" | %s} }; }\n" % (kind, m, use)
                body = "pub fn f(mut p: Parser<'_>) -> Parser<'_> { fw!(p, %s); p }\n"
            pre = HEAD + "use konst::{Parser, parser_method};\n" + decl + mac
            out.append(("G8/%s/%s" % (m, name), pre + body % bad_arg, pre + body % good_arg))
    for m in MATCH_METHODS:
        for name, b in bad:
            d = decl + ("" if name != "variable" else "")
            inv = pm_match(m, ["\"x\"", b], extra_decl=d).replace("pub fn f(mut p", "pub fn f(mut p")
            if name in ("variable", "concat-variable"):
                inv = inv.replace("{ let r =", "{ let v = \"ab\"; let r =")
            ctl = pm_match(m, ["\"x\"", "concat!(\"a\", \"b\")" if name.startswith("concat") else "\"ab\""], extra_decl=d)
            out.append(("G8/%s/%s" % (m, name), inv, ctl))
    for m in TRIM_METHODS:
        for name, b in bad:
            inv = pm_trim(m, ["\"x\"", b], extra_decl=decl)
            if name in ("variable", "concat-variable"):
                inv = inv.replace("{ parser_method!", "{ let v = \"ab\"; parser_method!")
            ctl = pm_trim(m, ["\"x\"", "concat!(\"a\", \"b\")" if name.startswith("concat") else "\"ab\""], extra_decl=decl)
            out.append(("G8/%s/%s" % (m, name), inv, ctl))
    return out


def g9(rng):
    out = []
    for m in MATCH_METHODS:
        for n in (1, 2, 3):
            pats = ["\"p%d\"" % i for i in range(n)]
            inv = pm_match(m, pats, with_default=False)
            ctl = pm_match(m, pats, with_default=True)
            out.append(("G9/%s/%d-branches/no-default" % (m, n), inv, ctl))
        # default branch that is not last
        inv = (HEAD + "use konst::{Parser, parser_method};\npub fn f(mut p: Parser<'_>) -> u32 { parser_method!{p, %s; \"a\" => 0, _ => 9, \"b\" => 1} }\n" % m)
        ctl = (HEAD + "use konst::{Parser, parser_method};\npub fn f(mut p: Parser<'_>) -> u32 { parser_method!{p, %s; \"a\" => 0, \"b\" => 1, _ => 9} }\n" % m)
        out.append(("G9/%s/default-not-last" % m, inv, ctl))
    # unknown method name
    inv = HEAD + "use konst::{Parser, parser_method};\npub fn f(mut p: Parser<'_>) -> u32 { parser_method!{p, strip; \"a\" => 0, _ => 9} }\n"
    ctl = pm_match("strip_prefix", ["\"a\""])
    out.append(("G9/unknown-method", inv, ctl))
    return out


def g10(rng):
    """Lifetime laundering: a value moved out through a macro must keep the lifetime it had inside the aggregate.  The
    invalid program returns the binding as `'static`, the control returns it with the input's lifetime.  (The borrow
    checker only enforces what the expansion expresses in reachable code.)"""
    out = []

    def pair(name, sig_in, ret_ty, body, ret_expr, decl=""):
        inv = HEAD + decl + "pub fn f<'a>(v: %s) -> %s { %s %s }\n" % (sig_in, ret_ty.replace("'r", "'static"), body, ret_expr)
        ctl = HEAD + decl + "pub fn f<'a>(v: %s) -> %s { %s %s }\n" % (sig_in, ret_ty.replace("'r", "'a"), body, ret_expr)
        out.append(("G10/" + name, inv, ctl))

    # arrays: single elements and `rest @ ..` in every position
    pair("array/elem", "[&'a str; 3]", "&'r str", "konst::destructure!{[x, _y, _z] = v}", "x")
    pair("array/rest-suffix", "[&'a str; 3]", "[&'r str; 2]", "konst::destructure!{[_x, rest @ ..] = v}", "rest")
    pair("array/rest-prefix", "[&'a str; 3]", "[&'r str; 2]", "konst::destructure!{[rest @ .., _z] = v}", "rest")
    pair("array/rest-middle", "[&'a str; 4]", "[&'r str; 2]", "konst::destructure!{[_x, rest @ .., _z] = v}", "rest")
    pair("array/rest-all", "[&'a str; 2]", "[&'r str; 2]", "konst::destructure!{[rest @ ..] = v}", "rest")
    pair("array/rest-empty", "[&'a str; 2]", "[&'r str; 0]", "konst::destructure!{[_x, rest @ .., _z] = v}", "rest")
    pair("array/elem-next-to-rest", "[&'a str; 3]", "&'r str", "konst::destructure!{[x, _rest @ ..] = v}", "x")
    pair("array/annotated-rest", "[&'a str; 3]", "[&'r str; 2]", "konst::destructure!{[_x, rest @ ..]: [&str; 3] = v}", "rest")
    pair("array/rest-of-slices", "[&'a [u8]; 3]", "[&'r [u8]; 2]", "konst::destructure!{[_x, rest @ ..] = v}", "rest")
    pair("array/rest-of-mut-refs", "[&'a mut u8; 3]", "[&'r mut u8; 2]", "konst::destructure!{[_x, rest @ ..] = v}", "rest")
    # tuples, structs
    pair("tuple/elem", "(&'a str, u8)", "&'r str", "konst::destructure!{(x, _n) = v}", "x")
    pair("tuple/annotated", "(&'a str, u8)", "&'r str", "konst::destructure!{(x, _n): (&str, u8) = v}", "x")
    pair("braced/field", "S<'a>", "&'r str", "konst::destructure!{S{a, b: _} = v}", "a", decl="pub struct S<'x> { a: &'x str, b: u8 }\n")
    pair("braced/type-form", "S<'a>", "&'r str", "konst::destructure!{S<'_> {a, b: _} = v}", "a", decl="pub struct S<'x> { a: &'x str, b: u8 }\n")
    pair("tuple_struct/field", "S<'a>", "&'r str", "konst::destructure!{S(a, _) = v}", "a", decl="pub struct S<'x>(&'x str, u8);\n")
    pair("nested/array-in-tuple", "([&'a str; 2], u8)", "&'r str", "konst::destructure!{(arr, _n) = v} konst::destructure!{[x, _y] = arr}", "x")
    # the other macros that hand a value out of an aggregate
    pair("array_map", "[&'a str; 2]", "[&'r str; 2]", "let r = konst::array::map!(v, |x| x);", "r")
    pair("array_map_", "[&'a str; 2]", "[&'r str; 2]", "let r = konst::array::map_!(v, |x| x);", "r")
    pair("option_map", "Option<&'a str>", "Option<&'r str>", "let r = konst::option::map!(v, |x| x);", "r")
    pair("option_unwrap_or", "Option<&'a str>", "&'r str", "let r = konst::option::unwrap_or!(v, \"\");", "r")
    pair("rebind", "Result<(&'a str, u8), u8>", "&'r str", "let mut s: &str = \"\"; let mut n = 0u8; konst::rebind_if_ok!{(s, n) = v}", "s")
    pair("collect_const-free/iter_eval", "&'a [&'a str]", "Option<&'r str>", "let r = konst::iter::eval!(v, copied(), next());", "r")
    return out


def g11(rng):
    """destructure! applied to a union: reading a union field needs `unsafe` (built-in `let U {a} = u;` is E0133), so the
    safe macro must reject every form; the control is the same program with `struct` instead of `union`."""
    out = []
    decls = {
        "concrete": ("pub %s V { pub a: bool }\n", "V", ["V {a}", "self::V {a}", "V::<> {a}", "self::V::<> {a}", "V<> {a}"]),
        "generic": ("pub %s V<T: Copy> { pub a: T }\n", "V<bool>", ["V {a}", "V::<bool> {a}", "V<bool> {a}", "self::V::<bool> {a}", "V::<_> {a}"]),
        "two-fields": ("pub %s V { pub a: bool, pub b: u8 }\n", "V", ["V {a}", "V::<> {a}", "V {a, b}", "V::<> {a, b}", "V::<> {b, a}"]),
    }
    for dname, (decl, ty, pats) in decls.items():
        for pat in pats:
            for annot in (False, True):
                ann = (": " + ty) if annot else ""
                prog = "pub fn f(v: %s) -> bool { konst::destructure!{%s%s = v} a }\n" % (ty, pat, ann)
                inv = HEAD + decl % "union" + prog
                ctl = HEAD + decl % "struct" + prog
                if dname == "two-fields" and ("b" not in pat.split("{")[1]):
                    # the struct control needs both fields listed
                    ctl = HEAD + (decl % "struct") + "pub fn f(v: %s) -> bool { konst::destructure!{%s%s = v} a }\n" % (ty, pat.replace("{a}", "{a, b}"), ann)
                out.append(("G11/%s/%s/%s" % (dname, pat.replace(" ", ""), "annot" if annot else "noannot"), inv, ctl))
    return out


FAMILIES = [("G1", g1), ("G2", g2), ("G3", g3), ("G4", g4), ("G5", g5), ("G6", g6), ("G7", g7), ("G8", g8), ("G9", g9), ("G10", g10), ("G11", g11)]

# a calling crate that defines its own `compile_error!`: guards written as a bare `compile_error!{..}` in the macro would
# expand to the caller's macro (macro_rules! hygiene does not cover macro names)
CALLER_COMPILE_ERROR = "#[allow(unused_macros)] macro_rules! compile_error { ($($t:tt)*) => { }; }\n"


def all_cases(seed, tier):
    rng = random.Random(seed * 31 + 17)
    cases = []
    for fam, fn in FAMILIES:
        got = fn(rng)
        cases.extend(got)
        if fam in ("G3", "G4", "G8", "G9"):
            for name, inv, ctl in got:
                if inv is None or (fam in ("G3", "G8") and rng.random() < 0.6):
                    continue
                cases.append((name + "/caller-defines-compile_error", inv.replace(HEAD, HEAD + CALLER_COMPILE_ERROR, 1), ctl.replace(HEAD, HEAD + CALLER_COMPILE_ERROR, 1)))
    # quick tier: a seeded sample of the larger families, thorough: everything
    if tier == "quick":
        keep = []
        by_fam = {}
        for c in cases:
            by_fam.setdefault(c[0].split("/")[0], []).append(c)
        for fam, lst in by_fam.items():
            if len(lst) > 4800:
                rng2 = random.Random(seed * 7 + len(fam))
                idx = sorted(rng2.sample(range(len(lst)), 48))
                lst = [lst[i] for i in idx]
            keep.extend(lst)
        cases = keep
    return cases


def run(prop, tier, seed, out, timeout, **kw):
    t0 = time.time()
    ok, outp = driver.build_lib()
    if not ok:
        return 2, "[gen_reject] building konst failed:\n" + outp[-4000:]
    cases = all_cases(seed, tier)
    sources = []
    index = []
    for name, inv, ctl in cases:
        if inv is not None:
            index.append((name, "invalid", len(sources)))
            sources.append(inv)
        index.append((name, "control", len(sources)))
        sources.append(ctl)
    verdicts = driver.rustc_verdicts(sources)
    by_name = {}
    for name, kind, i in index:
        by_name.setdefault(name, {})[kind] = i
    violations = []
    broken_controls = []
    nontriv = 0
    labels = {}
    samples = []
    for name, d in by_name.items():
        fam = name.split("/")[0]
        ci = d["control"]
        c_ok = verdicts[ci][0] == 0
        if not c_ok:
            broken_controls.append((name, sources[ci], verdicts[ci][1]))
            continue
        labels[fam + "_pairs"] = labels.get(fam + "_pairs", 0) + 1
        nontriv += 1
        if "invalid" in d:
            ii = d["invalid"]
            if verdicts[ii][0] == 0:
                violations.append((name, sources[ii], sources[ci]))
            elif len(samples) < 18 and (nontriv % 11 == 1):
                samples.append({"family": name, "invalid_program": sources[ii], "control_program": sources[ci]})
    # known finding: a struct with zero fields that implements Drop is accepted (expands to `let S {} = v;`,
    # which built-in destructuring accepts too and which moves nothing out); keyed on exactly that shape
    known = driver.load_known(prop)
    known_sigs = {s for s, _ in known}
    known_hits = 0
    if "zero-field-drop-struct-accepted" in known_sigs:
        rest = []
        for v in violations:
            if v[0].startswith(("G1/braced/fields=0/concrete/", "G1/tuple_struct/fields=0/concrete/")):
                known_hits += 1
            else:
                rest.append(v)
        violations = rest
    known_hits2 = 0
    if "empty-pattern-on-reference-accepted" in known_sigs:
        rest = []
        for v in violations:
            if v[0].startswith("G2/empty_"):
                known_hits2 += 1
            else:
                rest.append(v)
        violations = rest
    if prop == "C17":
        # unions are not among the guards C17 lists; accepting one is a soundness matter (C01)
        kept = [v for v in violations if not v[0].startswith("G11/")]
        if len(kept) != len(violations):
            labels["union_acceptances_left_to_C01"] = len(violations) - len(kept)
        violations = kept
    if prop != "C17":
        # run on behalf of another property (C01: "no undefined behaviour"): only acceptances that make safe code unsound
        # count.  Destructuring a struct with zero fields moves nothing out, so accepting it (C17's listed finding) is
        # sound; the macro misuses of the other families (G3..G9: malformed invocations that only need to be *errors*) are
        # C17's subject alone.  What remains for C01: Drop types with fields (G1) and references (G2).
        kept = []
        for v in violations:
            if v[0].startswith(("G1/braced/fields=0/", "G1/tuple_struct/fields=0/")):
                labels["sound_acceptance_not_counted"] = labels.get("sound_acceptance_not_counted", 0) + 1
            elif v[0].startswith("G2/empty_"):
                labels["sound_acceptance_not_counted"] = labels.get("sound_acceptance_not_counted", 0) + 1
            elif v[0].startswith(("G1/", "G2/", "G10/", "G11/")):
                kept.append(v)
            else:
                labels["not_a_soundness_matter"] = labels.get("not_a_soundness_matter", 0) + 1
        violations = kept
    labels["known_finding_hits"] = known_hits + known_hits2
    text = []
    if broken_controls:
        for name, src, err in broken_controls[:4]:
            text.append("[gen_reject] control program does not compile (harness error, not a violation): %s\n%s\n%s" % (name, src, err[-1500:]))
        return 2, "\n".join(text) + "\n"
    rc = 0
    if violations:
        text.append("  accepted invalid programs (%d): %s" % (len(violations), ", ".join(v[0] for v in violations[:200])))
    for name, inv, ctl in violations[:8]:
        path = driver.save_replay(prop, ENGINE, "accepts", {"property": prop, "engine": ENGINE, "case": {"family": name},
                                                            "invalid_program_that_compiled": inv, "control_program": ctl})
        text.append("  %s: the invalid program compiled\n%s" % (name, "\n".join("      " + l for l in inv.splitlines()[1:])))
        text.append("VIOLATION property=%s replay=%s" % (prop, path))
        rc = 1
    for sig, desc in known:
        text.append("KNOWN-FINDING: property=%s %s (signature=%s, hits this run=%d)" % (prop, desc, sig, {"zero-field-drop-struct-accepted": known_hits, "empty-pattern-on-reference-accepted": known_hits2}.get(sig, 0)))
    wall = time.time() - t0
    text.append("[%s %s] programs=%d pairs=%d violations=%d wall=%.1fs" % (prop, ENGINE, len(sources), nontriv, len(violations), wall))
    driver.write_evidence(out, prop, ENGINE, tier, seed, wall, len(sources), nontriv, RULE, samples, len(violations),
                          programs=len(sources), labels=labels, exhaustive=(tier == "thorough"),
                          assumptions=["rustc's accept/reject verdict on the installed stable toolchain is the oracle; diagnostics text is not used"])
    return rc, "\n".join(text) + "\n"


def replay(prop, path, **kw):
    body = json.load(open(path))
    ok, outp = driver.build_lib()
    if not ok:
        return 2, outp[-3000:]
    v = driver.rustc_verdicts([body["invalid_program_that_compiled"], body["control_program"]])
    if v[1][0] != 0:
        return 2, "control does not compile:\n" + v[1][1][-2000:]
    if v[0][0] == 0:
        return 1, "invalid program still compiles\nVIOLATION property=%s replay=%s\n" % (prop, path)
    return 0, "invalid program is rejected now\n"

"""libFuzzer campaigns (thorough tier): cargo-fuzz targets in harness/fuzz, each with the semantic oracle of
its property inside the target (the in-process engine's run_case is reused through #[path] modules).
A crash is a violation with the saved input as replay; a build failure / time-out is exit 2."""
import json
import os
import re
import shutil
import time

import driver

ENGINE = "libfuzzer"
FUZZ_DIR = os.path.join(driver.VERIF, "harness", "fuzz")
CORPUS = os.path.join(driver.VERIF, "corpus")


def run(prop, tier, seed, out, target, runs, timeout, **kw):
    t0 = time.time()
    work = os.path.join(driver.VERIF, "work", "fuzz", target)
    shutil.rmtree(work, ignore_errors=True)
    os.makedirs(work, exist_ok=True)
    # fresh copy of the committed seed corpus (if any): libFuzzer ramps length slowly from an empty one
    src = os.path.join(CORPUS, target)
    if os.path.isdir(src):
        for fn in sorted(os.listdir(src)):
            shutil.copy(os.path.join(src, fn), os.path.join(work, fn))
    art = os.path.join(work, "artifacts") + "/"
    os.makedirs(art, exist_ok=True)
    lseed = (seed % 2147483646) + 1  # 0 would mean "random"
    cmd = ["cargo", "+nightly", "fuzz", "run", target, work, "--", "-runs=%d" % runs, "-seed=%d" % lseed, "-max_len=128",
           "-len_control=0", "-artifact_prefix=" + art, "-print_final_stats=1"]
    rc, outp, dt = driver.sh(cmd, cwd=FUZZ_DIR, timeout=timeout)
    execs = 0
    m = re.search(r"stat::number_of_executed_units:\s*(\d+)", outp)
    if m:
        execs = int(m.group(1))
    cov = 0
    for mm in re.finditer(r"cov: (\d+)", outp):
        cov = max(cov, int(mm.group(1)))
    crashes = [os.path.join(art, f) for f in os.listdir(art)] if os.path.isdir(art) else []
    kept_inputs = len([f for f in os.listdir(work) if os.path.isfile(os.path.join(work, f))])
    text = []
    if crashes or "violation:" in outp:
        msg = ""
        mm = re.search(r"(C\d\d violation: .*)", outp)
        if mm:
            msg = mm.group(1)[:500]
        keep = os.path.join(driver.VERIF, "replays", "%s-fuzz-%s-%s" % (prop, target, os.path.basename(crashes[0]) if crashes else "crash"))
        if crashes:
            shutil.copy(crashes[0], keep)
        else:
            open(keep, "wb").write(b"")
        # the panic message says which property's oracle fired (c13_ops serves C13 and C14)
        owner = msg[:3] if msg[:3] in ("C13", "C14") else prop
        if owner != prop:
            text.append("[libfuzzer %s] crash belongs to %s (%s); not a %s verdict" % (target, owner, msg, prop))
            rcode = 0
        else:
            text.append("  libFuzzer target %s: %s\n    input saved (re-run: cd harness/fuzz && cargo +nightly fuzz run %s %s)" % (target, msg, target, keep))
            text.append("VIOLATION property=%s replay=%s" % (prop, keep))
            rcode = 1
        viol = 1 if rcode else 0
    elif rc != 0:
        return 2, "[libfuzzer %s] run failed (rc %s):\n%s" % (target, rc, outp[-3000:])
    else:
        rcode, viol = 0, 0
    wall = time.time() - t0
    text.append("[%s libfuzzer:%s] executions=%d coverage_edges=%d violations=%d wall=%.1fs" % (prop, target, execs, cov, viol, wall))
    driver.write_evidence(out, prop, "libfuzzer-" + target, tier, seed, wall, max(execs, 1), kept_inputs,
                          ("coverage-guided libFuzzer campaign on target %s (bytes decoded with arbitrary::Unstructured into the structured case of the in-process engine, reduced alphabets; the engine's oracle runs inside the target); evaluations = executed inputs; distinct_nontrivial = number of distinct inputs libFuzzer retained in its corpus because they reached new coverage (%d coverage edges in total)" % (target, cov)),
                          [{"target": target, "runs": runs, "seed": lseed}], viol,
                          assumptions=["libFuzzer -seed/-runs pin a campaign only approximately; the saved crashing input is the reproducible unit"])
    return rcode, "\n".join(text) + "\n"

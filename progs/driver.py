"""Shared driver for the program-space engines: writes generated Rust into a scratch cargo
package that path-depends on /repo/konst, builds it offline, runs it, and (for compile-verdict
engines) invokes rustc on single programs against the konst rlib built from /repo's tree."""
import concurrent.futures
import glob
import hashlib
import json
import os
import shutil
import subprocess
import time

VERIF = os.path.dirname(os.path.dirname(os.path.abspath(__file__)))
CRATE = os.path.join(VERIF, "progs", "crate")
ENV = dict(os.environ)
ENV["CARGO_NET_OFFLINE"] = "true"
ENV["CARGO_TERM_COLOR"] = "never"

CARGO_TOML = """[package]
name = "kprog"
version = "0.0.0"
edition = "2021"
publish = false

[dependencies]
konst = { path = "/repo/konst", features = ["rust_1_83", "alloc"] }

[profile.dev]
opt-level = 0
debug = 0
debug-assertions = true
overflow-checks = true
incremental = false

[profile.release]
opt-level = 1
debug = 0
debug-assertions = false
overflow-checks = false
incremental = false

[workspace]
"""

# "dev" (debug assertions + overflow checks) or "release" (neither): which build of konst *and of the generated
# program* an engine run uses; set by /verif/check from the step description
PROFILE = "dev"


def _rel():
    return ["--release"] if PROFILE == "release" else []


def _tdir():
    return "release" if PROFILE == "release" else "debug"


def sh(cmd, cwd=None, timeout=1800, env=None):
    t0 = time.time()
    try:
        p = subprocess.run(cmd, cwd=cwd, env=env or ENV, timeout=timeout, stdout=subprocess.PIPE,
                           stderr=subprocess.STDOUT, text=True, errors="replace")
        return p.returncode, p.stdout, time.time() - t0
    except subprocess.TimeoutExpired as e:
        out = e.stdout if isinstance(e.stdout, str) else (e.stdout or b"").decode("utf8", "replace")
        return 124, (out or "") + "\n[timeout after %ds]" % timeout, time.time() - t0


def prepare_crate():
    os.makedirs(os.path.join(CRATE, "src", "bin"), exist_ok=True)
    os.makedirs(os.path.join(CRATE, ".cargo"), exist_ok=True)
    w(os.path.join(CRATE, "Cargo.toml"), CARGO_TOML)
    w(os.path.join(CRATE, ".cargo", "config.toml"), "[net]\noffline = true\n")
    lock = os.path.join(CRATE, "Cargo.lock")
    if not os.path.exists(lock):
        shutil.copy("/repo/Cargo.lock", lock)
    lib = os.path.join(CRATE, "src", "lib.rs")
    if not os.path.exists(lib):
        w(lib, "pub use konst;\n")


def w(path, text):
    old = None
    if os.path.exists(path):
        with open(path, encoding="utf8") as f:
            old = f.read()
    if old != text:
        with open(path, "w", encoding="utf8") as f:
            f.write(text)


# Every generated program is a hostile (but legal) calling crate: the assertion macros are shadowed by versions that never
# panic.  macro_rules! bodies resolve unqualified macro names at the call site, so a library macro whose safety rests on
# `assert!` has to name it through a path of its own (konst does: `$crate::__::assert!`).
HOSTILE = ("#[allow(unused_macros)] macro_rules! assert { ($($t:tt)*) => { () }; }\n"
           "#[allow(unused_macros)] macro_rules! debug_assert { ($($t:tt)*) => { () }; }\n"
           "#[allow(unused_macros)] macro_rules! assert_eq { ($($t:tt)*) => { () }; }\n"
           "#[allow(unused_macros)] macro_rules! assert_ne { ($($t:tt)*) => { () }; }\n"
           "#[allow(unused_macros)] macro_rules! unreachable { ($($t:tt)*) => { () }; }\n")


# ... and it has modules of its own called `core` and `std` at the crate root: a path written as `core::..` / `std::..` in a
# macro body (instead of `$crate::__::..`) resolves there and no longer compiles.  The generated program's own paths are
# written `::core::..` / `::std::..` (done here, textually).
HOSTILE_MODS = "#[allow(unused)] mod core {}\n#[allow(unused)] mod std {}\n"


def hostile(source):
    """inserts the shadowing macros and modules after the leading inner attributes of a generated program"""
    import re
    add = []
    if "macro_rules! assert " not in source:
        add.append(HOSTILE)
    if not re.search(r"(?m)^\s*(#\[[^\]]*\]\s*)?(pub\s+)?mod core\b", source):
        source = re.sub(r"(?<![\w:$])(std|core)::", r"::\1::", source)
        add.append(HOSTILE_MODS)
    if not add:
        return source
    lines = source.split("\n")
    i = 0
    while i < len(lines) and (lines[i].strip() == "" or lines[i].lstrip().startswith("#![") or lines[i].lstrip().startswith("//")):
        i += 1
    return "\n".join(lines[:i] + add + lines[i:])


def write_bin(name, source):
    source = hostile(source)
    prepare_crate()
    w(os.path.join(CRATE, "src", "bin", name + ".rs"), source)


def remove_bins(prefix):
    d = os.path.join(CRATE, "src", "bin")
    if os.path.isdir(d):
        for fn in os.listdir(d):
            if fn.startswith(prefix):
                os.remove(os.path.join(d, fn))


def build_bin(name, timeout=1800):
    """returns (ok, output)"""
    rc, out, dt = sh(["cargo", "build", "--offline", "--bin", name] + _rel(), cwd=CRATE, timeout=timeout)
    return rc == 0, out


def build_lib(timeout=1800):
    prepare_crate()
    rc, out, dt = sh(["cargo", "build", "--offline", "--lib"] + _rel(), cwd=CRATE, timeout=timeout)
    return rc == 0, out


def run_bin(name, args=(), timeout=900, env=None):
    exe = os.path.join(CRATE, "target", _tdir(), name)
    e = dict(ENV)
    if env:
        e.update(env)
    return sh([exe] + list(args), cwd=CRATE, timeout=timeout, env=e)


def deps_dir():
    return os.path.join(CRATE, "target", _tdir(), "deps")


def konst_rlib():
    """newest libkonst-*.rlib (cargo keeps one per fingerprint)"""
    c = glob.glob(os.path.join(deps_dir(), "libkonst-*.rlib"))
    if not c:
        return None
    return max(c, key=os.path.getmtime)


def rustc_verdicts(sources, jobs=16, timeout=120, extra=()):
    """Compiles each source alone (metadata only) against the konst rlib. Returns list of (ok, stderr)."""
    rlib = konst_rlib()
    assert rlib, "konst rlib missing; call build_lib() first"
    work = os.path.join(CRATE, "target", "single")
    shutil.rmtree(work, ignore_errors=True)
    os.makedirs(work, exist_ok=True)

    def one(i_src):
        i, src = i_src
        path = os.path.join(work, "p%05d.rs" % i)
        with open(path, "w", encoding="utf8") as f:
            # every program compiled alone sits in the same hostile calling crate as the batched ones
            f.write(hostile(src))
        cmd = ["rustc", "--edition", "2021", "--crate-type", "lib", "--emit=metadata", "-A", "warnings",
               "--extern", "konst=" + rlib, "-L", "dependency=" + deps_dir(),
               "-o", os.path.join(work, "p%05d.rmeta" % i), path] + list(extra)
        if PROFILE == "release":
            cmd += ["-C", "debug-assertions=off", "-C", "overflow-checks=off"]
        rc, out, dt = sh(cmd, timeout=timeout)
        return rc, out

    with concurrent.futures.ThreadPoolExecutor(max_workers=jobs) as ex:
        return list(ex.map(one, enumerate(sources)))


def save_replay(prop, engine, name, body):
    os.makedirs(os.path.join(VERIF, "replays"), exist_ok=True)
    body = dict(body, profile=PROFILE)
    text = json.dumps(body, indent=1, ensure_ascii=False, sort_keys=True)
    h = hashlib.sha1(text.encode("utf8")).hexdigest()[:8]
    path = os.path.join(VERIF, "replays", "%s-%s-%s-%s.json" % (prop, engine, name, h))
    with open(path, "w", encoding="utf8") as f:
        f.write(text)
    return path


def load_known(prop):
    out = []
    path = os.path.join(VERIF, "known_findings.txt")
    if not os.path.exists(path):
        return out
    for line in open(path, encoding="utf8"):
        line = line.strip()
        if not line.startswith("known:"):
            continue
        words = line[len("known:"):].split()
        p = sig = None
        rest = []
        for wd in words:
            if wd.startswith("property="):
                p = wd[len("property="):]
            elif wd.startswith("signature="):
                sig = wd[len("signature="):]
            else:
                rest.append(wd)
        if p == prop and sig:
            out.append((sig, " ".join(rest)))
    return out


def write_evidence(out, prop, engine, tier, seed, wall, evaluations, nontrivial, rule, samples, violations,
                   programs=None, labels=None, exhaustive=False, extra=None, assumptions=()):
    cov = {
        "evaluations": int(evaluations),
        "distinct_nontrivial": int(nontrivial),
        "rule": rule,
        "samples": samples[:25] if samples else ["<none>"],
        "labels": labels or {},
        "exhaustive": bool(exhaustive),
    }
    if programs is not None:
        cov["programs"] = int(programs)
        cov["disagreements_checked"] = int(violations)
    if extra:
        cov.update(extra)
    cov["build_profile"] = "release: no debug assertions, no overflow checks, opt-level 1" if PROFILE == "release" else "dev: debug assertions and overflow checks on"
    ev = {
        "property_id": prop, "engine": engine + ("-release" if PROFILE == "release" else ""), "tier": tier, "seed": int(seed), "level": "exploration",
        "coverage": cov, "assumptions": list(assumptions), "wall_s": round(wall, 2), "violations": int(violations),
    }
    os.makedirs(os.path.dirname(out), exist_ok=True)
    with open(out, "w", encoding="utf8") as f:
        json.dump(ev, f, indent=1, ensure_ascii=False)


def macro_item_names():
    """Dictionary for name-collision programs: the names of items (const / static / fn / struct / enum / type)
    that konst's macro_rules! bodies declare, harvested from /repo's current sources.  macro_rules! hygiene does
    not cover items, so a caller constant with one of these names is the input that shows whether the macro keeps
    its helper items in a scope of their own.  Returns {"const": [...], "fn": [...], "type": [...]}."""
    import re
    out = {"const": set(), "fn": set(), "type": set()}
    for root in ("/repo/konst/src", "/repo/konst_kernel/src"):
        for path in glob.glob(os.path.join(root, "**", "*.rs"), recursive=True):
            try:
                text = open(path, encoding="utf8").read()
            except OSError:
                continue
            for m in re.finditer(r"macro_rules!\s*[A-Za-z_0-9]+\s*\{", text):
                depth, i = 1, m.end()
                while i < len(text) and depth:
                    c = text[i]
                    depth += (c == "{") - (c == "}")
                    i += 1
                body = text[m.end():i]
                for mm in re.finditer(r"\b(?:const|static)\s+(?:mut\s+)?([A-Z_][A-Z0-9_a-z]*)\s*:", body):
                    out["const"].add(mm.group(1))
                for mm in re.finditer(r"\bfn\s+([a-z_][A-Za-z0-9_]*)\s*[<(]", body):
                    out["fn"].add(mm.group(1))
                for mm in re.finditer(r"\b(?:struct|enum|type|trait|union)\s+([A-Z_][A-Za-z0-9_]*)", body):
                    out["type"].add(mm.group(1))
    # names the authors mangled on purpose (`__ARGS_81608BFNA5`, `CAP_KO9Y329U2U`, anything starting with `__`) are
    # konst's way of avoiding collisions: a caller using one of those is not a realistic program, so they are left out
    def ordinary(n):
        return not n.startswith("__") and not re.search(r"[0-9]{3,}", n) and n not in ("_", "K", "Self")
    return {k: sorted(n for n in v if ordinary(n)) for k, v in out.items()}

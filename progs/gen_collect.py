"""C11 (collect_const! half): `collect_const!` returns an array whose length and contents equal collecting the
same iterator.  Generated `const K: &[T] = &collect_const!(T => chain);` items, compared at run time with
`chain.collect::<Vec<T>>()` on std iterators.  The constant is built by rustc's const evaluator, so an unwritten
slot (array_assume_init on a partly written array) is a compile error of the batch, reported as a violation."""
import json
import random
import re
import time

import driver
import gen_chain

ENGINE = "gen_collect"

RULE = ("programs = `const K: &[T] = &iter::collect_const!(T => source, adapters...)` with T in {i32, (i32, i32), (usize, i32), char, "
        "&str, u8}; sources: array reference, a..b, a..=b, a.. + take, string::chars, string::split(char), slice::iter_copied, "
        "slice::windows/chunks (mapped to their length and first element); adapters: map, filter, filter_map, take, skip, take_while, "
        "skip_while, enumerate, zip (range / slice argument; equal lengths when a rev() follows), flat_map, flatten, rev, copied; "
        "oracle: K == the same chain on std iterators collected into a Vec (length and every element); a quarter of the i32 chains reference a caller constant named like an item of konst's own macro bodies (LEN, STR, ... from /repo's sources); chains whose meaning "
        "konst documents differently (position-dependent adapter before rev) are not generated here (they are C10's known "
        "finding); a batch that fails to compile is bisected to the failing item: const-evaluation errors (E0080: unwritten "
        "element, overflow, failed assert) are violations; non-trivial = chain with >= 2 adapters or a non-i32 item type and "
        ">= 2 collected items; distinct by program text")


def lit_i32(vals):
    return "[%s]" % ", ".join("%di32" % v for v in vals) if vals else "[0i32; 0]"


def gen_typed(rng):
    """non-i32 item types; returns (type, konst expr, std expr, expected minimum length for non-triviality)"""
    fam = rng.choice(["pair", "enum_pair", "chars", "split", "bytes", "windows", "chunks", "flatten", "strs"])
    if fam == "pair":
        n = rng.randint(0, 6)
        a = [rng.randint(0, 9) for _ in range(n)]
        b = [rng.randint(0, 9) for _ in range(n if rng.random() < 0.7 else rng.randint(0, 6))]
        rev = len(a) == len(b) and rng.random() < 0.6
        tail_k, tail_s = (", rev()", ".rev()") if rev else ("", "")
        if rng.random() < 0.5:
            return ("(i32, i32)", "&%s, copied(), zip(&%s), map(|(x, y)| (x, *y))%s" % (lit_i32(a), lit_i32(b), tail_k),
                    "%s.iter().copied().zip(%s.iter()).map(|(x, y)| (x, *y))%s" % (lit_i32(a), lit_i32(b), tail_s))
        lo = rng.randint(0, 3)
        m = len(a) if rev else rng.randint(0, 6)
        return ("(i32, i32)", "&%s, copied(), zip(%d..%d)%s" % (lit_i32(a), lo, lo + m, tail_k),
                "%s.iter().copied().zip(%d..%d)%s" % (lit_i32(a), lo, lo + m, tail_s))
    if fam == "enum_pair":
        n = rng.randint(0, 6)
        a = [rng.randint(0, 9) for _ in range(n)]
        sk = rng.randint(0, 3)
        pre_k, pre_s = ("", "")
        if rng.random() < 0.5:
            pre_k, pre_s = ", rev()", ".rev()"
        return ("(usize, i32)", "&%s, copied()%s, enumerate(), skip(%d)" % (lit_i32(a), pre_k, sk),
                "%s.iter().copied()%s.enumerate().skip(%d)" % (lit_i32(a), pre_s, sk))
    if fam == "chars":
        pool = ["a", "é", "漢", "😀", "z", "\\u{7ff}", "\\u{800}", "\\u{e01}", "\\u{ffff}", "\\u{10000}"]
        s = "".join(rng.choice(pool) for _ in range(rng.randint(0, 7)))
        ads_k, ads_s = [], []
        for _ in range(rng.randint(0, 2)):
            m = rng.choice(["rev", "skip", "take", "filter"])
            if m == "rev" and not any(x.startswith(("skip", "take", "rev")) for x in ads_k):
                ads_k.append("rev()"); ads_s.append(".rev()")
            elif m in ("skip", "take") and "rev()" not in ads_k:
                c = rng.randint(0, 4)
                ads_k.append("%s(%d)" % (m, c)); ads_s.append(".%s(%d)" % (m, c))
            elif m == "filter":
                ads_k.append("filter(|c| *c != 'a')"); ads_s.append(".filter(|c| *c != 'a')")
        return ("char", "konst::string::chars(\"%s\")%s" % (s, "".join(", " + x for x in ads_k)), "\"%s\".chars()%s" % (s, "".join(ads_s)))
    if fam == "split":
        pool = ["a", ",", "bc", ",", "é", ",", ""]
        s = "".join(rng.choice(pool) for _ in range(rng.randint(0, 8)))
        rev = rng.random() < 0.5
        return ("&str", "konst::string::split(\"%s\", ',')%s" % (s, ", rev()" if rev else ""), "\"%s\".split(',')%s" % (s, ".rev()" if rev else ""))
    if fam == "bytes":
        n = rng.randint(0, 7)
        a = [rng.randint(0, 255) for _ in range(n)]
        lit = "[%s]" % ", ".join("%du8" % v for v in a) if a else "[0u8; 0]"
        rev = rng.random() < 0.5
        c = rng.randint(0, 255)
        return ("u8", "konst::slice::iter_copied(&%s)%s, map(|b| b ^ %d)" % (lit, ", rev()" if rev else "", c),
                "%s.iter().copied()%s.map(|b| b ^ %d)" % (lit, ".rev()" if rev else "", c))
    if fam in ("windows", "chunks"):
        n = rng.randint(0, 7)
        a = [rng.randint(0, 9) for _ in range(n)]
        size = rng.randint(1, 4)
        rev = rng.random() < 0.5
        return ("(usize, i32)", "konst::slice::%s(&%s, %d)%s, map(|w| (w.len(), w[0]))" % (fam, lit_i32(a), size, ", rev()" if rev else ""),
                "%s.%s(%d)%s.map(|w| (w.len(), w[0]))" % (lit_i32(a), fam, size, ".rev()" if rev else ""))
    if fam == "flatten":
        rows = [[rng.randint(0, 9) for _ in range(rng.randint(0, 3))] for _ in range(rng.randint(0, 4))]
        lit = "[%s]" % ", ".join("&%s as &[i32]" % lit_i32(r) for r in rows) if rows else "[&[0i32; 0] as &[i32]; 0]"
        rev = rng.random() < 0.5
        return ("i32", "&%s, copied()%s, flatten(), copied()" % (lit, ", rev()" if rev else ""),
                "%s.iter().copied()%s.flatten().copied()" % (lit, ".rev()" if rev else ""))
    if fam == "strs":
        pool = ["\"\"", "\"a\"", "\"bc\"", "\"é\"", "\"long string\""]
        a = [rng.choice(pool) for _ in range(rng.randint(0, 5))]
        lit = "[%s]" % ", ".join(a) if a else "[\"\"; 0]"
        rev = rng.random() < 0.5
        return ("&str", "&%s, copied()%s, filter(|s| s.len() != 1)" % (lit, ", rev()" if rev else ""),
                "%s.iter().copied()%s.filter(|s| s.len() != 1)" % (lit, ".rev()" if rev else ""))
    raise ValueError(fam)


_NAMES = None


def gen_item(rng):
    """(item type, konst expression, std expression, declarations of caller constants used by both)"""
    global _NAMES
    if rng.random() < 0.6:
        k, s = gen_chain.gen_const_chain(rng)
        decl = ""
        if rng.random() < 0.25:
            # a caller constant inside a closure of the chain, named like an item that konst's own macro bodies declare
            # (macro hygiene does not cover items: the macro must keep its helpers out of the caller's way)
            if _NAMES is None:
                _NAMES = driver.macro_item_names()["const"] or ["LEN"]
            name = rng.choice(_NAMES)
            c = rng.randint(0, 9)
            decl = "const %s: i32 = %d;" % (name, c)
            assert k.endswith(")") and s.endswith(".collect::<Vec<i32>>()")
            k = k[:-1] + ", map(|x| x + %s))" % name
            s = s[:-len(".collect::<Vec<i32>>()")] + ".map(|x| x + %s).collect::<Vec<i32>>()" % name
        return "i32", k, s, decl
    ty, k, s = gen_typed(rng)
    return ty, "iter::collect_const!(%s => %s)" % (ty, k), "%s.collect::<Vec<%s>>()" % (s, ty), ""


def render(items):
    lines = ["#![allow(unused, clippy::all)]", "use konst::iter;", "fn main() {", "    let mut multi = 0u32;"]
    for i, (ty, k, s, decl) in enumerate(items):
        lines.append("    { " + decl + " const K: &[%s] = &%s; let s: Vec<%s> = %s; if K.len() >= 2 { multi += 1; } if K != &s[..] { println!(\"FAIL %d k={:?} s={:?}\", K, s); } }" % (ty, k, ty, s, i))
    lines.append("    println!(\"TOTAL %d multi={}\", multi);" % len(items))
    lines.append("}")
    return "\n".join(lines) + "\n"


def build_and_run(name, items, timeout):
    driver.write_bin(name, render(items))
    ok, outp = driver.build_bin(name)
    if not ok:
        return None, outp
    rc, outr, dt = driver.run_bin(name, timeout=timeout)
    if rc != 0:
        return None, outr
    return outr, ""


def bisect_build_failure(items, timeout):
    """which items make the batch fail to compile"""
    bad = []
    stack = [list(range(len(items)))]
    while stack and len(bad) < 5:
        idx = stack.pop()
        out, err = build_and_run("c11_collect_bis", [items[i] for i in idx], timeout)
        if out is not None:
            continue
        if len(idx) == 1:
            bad.append((idx[0], err))
            continue
        h = len(idx) // 2
        stack.append(idx[h:])
        stack.append(idx[:h])
    return bad


def judge_build_failure(chunk, timeout, err):
    """A batch of generated items does not build.  Returns (violations, None) - items whose constant cannot be evaluated
    (E0080) or that collect_const! rejects although the same chain compiles on std iterators - or (None, message) when
    the generator itself is at fault (the std twin does not compile either)."""
    bad = bisect_build_failure(chunk, timeout)
    if not bad:
        return None, "[gen_collect] batch fails to build but every half builds:\n" + err[-3000:]
    vs = []
    for i, e in bad:
        if "E0080" in e or "evaluation" in e:
            vs.append((chunk[i], "const evaluation of the collect_const! item failed: " + " ".join(re.findall(r"error(?:\[E\d+\])?: .*", e)[:3])))
            continue
        ty, k, st, decl = chunk[i]
        driver.write_bin("c11_collect_twin", "#![allow(unused)]\nfn main() { %s let s: Vec<%s> = %s; println!(\"{}\", s.len()); }\n" % (decl, ty, st))
        okt, outt = driver.build_bin("c11_collect_twin")
        if not okt:
            return None, "[gen_collect] generated program does not compile, nor does its std twin (generator error):\n%s\n%s" % (chunk[i], e[-3000:])
        vs.append((chunk[i], "the chain compiles on std iterators but collect_const! rejects it: " + " ".join(re.findall(r"error(?:\[E\d+\])?: .*", e)[:2])))
    return vs, None


def run(prop, tier, seed, out, timeout, **kw):
    t0 = time.time()
    rng = random.Random(seed * 31 + 11)
    n = 500 if tier == "quick" else 4000
    items, seen = [], set()
    while len(items) < n:
        it = gen_item(rng)
        if it[1] in seen:
            continue
        seen.add(it[1])
        items.append(it)
    violations = []
    labels = {}
    multi = 0
    per = 500
    for b in range(0, len(items), per):
        chunk = items[b:b + per]
        outr, err = build_and_run("c11_collect", chunk, timeout)
        if outr is None:
            vs, problem = judge_build_failure(chunk, timeout, err)
            if problem:
                return 2, problem
            violations.extend(vs)
            continue
        for line in outr.splitlines():
            if line.startswith("FAIL "):
                violations.append((chunk[int(line.split()[1])], line[:400]))
            elif line.startswith("TOTAL "):
                multi += int(line.split("multi=")[1])
    for ty, k, s, decl in items:
        if decl:
            labels["caller_const_named_like_macro_item"] = labels.get("caller_const_named_like_macro_item", 0) + 1
        labels["type_" + ty] = labels.get("type_" + ty, 0) + 1
        for a in ("zip(", "rev()", "flat_map(", "flatten()", "enumerate()", "take(", "skip(", "take_while(", "skip_while(", "filter(", "filter_map("):
            if a in k:
                labels["adapter_" + a.strip("()")] = labels.get("adapter_" + a.strip("()"), 0) + 1
        if "zip(" in k and "rev()" in k and k.index("zip(") < k.index("rev()"):
            labels["zip_before_rev"] = labels.get("zip_before_rev", 0) + 1
    nontriv = [it for it in items if it[1].count("(") - 1 >= 3 or it[0] != "i32"]
    text = []
    rc = 0
    for it, why in violations[:5]:
        path = driver.save_replay(prop, ENGINE, "collect", {"property": prop, "engine": ENGINE, "case": {"type": it[0], "konst": it[1], "std": it[2], "decl": it[3]}, "evidence": [why]})
        text.append("  %s\n    %s" % (it[1], why))
        text.append("VIOLATION property=%s replay=%s" % (prop, path))
        rc = 1
    wall = time.time() - t0
    text.append("[%s %s] programs=%d with>=2 items=%d distinct_nontrivial=%d violations=%d wall=%.1fs" % (prop, ENGINE, len(items), multi, len(nontriv), len(violations), wall))
    samples = [{"type": it[0], "konst": it[1]} for it in nontriv[::max(1, len(nontriv) // 10)][:10]]
    labels["items_with_at_least_2_elements"] = multi
    driver.write_evidence(out, prop, ENGINE, tier, seed, wall, len(items), len(nontriv), RULE, samples, len(violations),
                          programs=len(items), labels=labels, assumptions=["std's Iterator adapters and collect() are the oracle"])
    return rc, "\n".join(text) + "\n"


def replay(prop, path, **kw):
    body = json.load(open(path))
    c = body["case"]
    it = (c["type"], c["konst"], c["std"], c.get("decl", ""))
    outr, err = build_and_run("c11_collect_replay", [it], 600)
    if outr is None:
        if "E0080" in err:
            return 1, err[-2000:] + "\nVIOLATION property=%s replay=%s\n" % (prop, path)
        return 2, err[-2000:]
    if "FAIL" in outr:
        return 1, outr + "\nVIOLATION property=%s replay=%s\n" % (prop, path)
    return 0, "replay: collect_const! agrees with std now\n" + outr

"""C01 (const-evaluation half): generated `const` items calling konst's const fns on generated constant
inputs.  rustc's const evaluator is the UB observer (out-of-bounds pointer arithmetic, uninitialised
reads and invalid values are hard errors E0080 there); each constant is additionally compared with the
run-time evaluation of the same expression."""
import json
import random
import time

import driver

ENGINE = "gen_const"

RULE = ("programs = `const K: T = <call>;` items for the const fns that reach unsafe code (slice_from/up_to/range, get_*, "
        "split_at, get, try_into_array, as_chunks/as_rchunks, bytes_* search/strip/trim functions with str/char/array patterns, "
        "string::{str_from,str_up_to,str_range,get_*,split_at,strip_*,trim*,find/rfind/_skip/_keep,split_once,rsplit_once}, "
        "chars/char_indices/split/rsplit/split_terminator first steps, chr::{from_u32,encode_utf8}, cstr constructors and views, "
        "Parser operations, slice iterators) on generated constant arrays / strings and indices from the edge set (0, len-1, len, "
        "len+1, usize::MAX, isize::MAX+1; only char-boundary indices for the panicking str functions); oracle = the program must "
        "compile (const evaluation must not hit UB or panic) and every constant must equal the run-time evaluation of the same "
        "expression; non-trivial = index >= len-1 or multi-byte text, counted per distinct program")

TEXT = ["a", "é", "漢", "😀", " ", ","]


def rstr(rng, maxlen=4):
    return "".join(rng.choice(TEXT) for _ in range(rng.randint(0, maxlen)))


def lit(s):
    return "\"" + s.replace("\\", "\\\\").replace("\"", "\\\"") + "\""


def boundary_indices(s):
    b = s.encode("utf8")
    out = [i for i in range(len(b) + 1) if i == len(b) or (b[i] & 0xC0) != 0x80]
    return out + [len(b) + 1, len(b) + 7]


def idx(rng, n):
    return rng.choice([0, max(n - 1, 0), n, n + 1, n + 2, "usize::MAX", "usize::MAX - 1", "(isize::MAX as usize) + 1", max(n // 2, 0)])


def gen(rng):
    """returns (type, expr, nontrivial)"""
    k = rng.randint(0, 33)
    ety, vals = rng.choice([("u8", lambda i: str(i * 3 % 251)), ("u64", lambda i: "%du64" % (i * 1000003)), ("()", lambda i: "()"),
                            ("[u8; 3]", lambda i: "[%d, 0, 1]" % (i % 200)), ("&str", lambda i: lit("s%d" % i))])
    n = rng.randint(0, 6)
    arr = "[" + ", ".join(vals(i) for i in range(n)) + "]" if n else "[]"
    arr_t = "({ const A: &[%s] = &%s; A })" % (ety, arr)
    a, b = idx(rng, n), idx(rng, n)
    edge = lambda x: not isinstance(x, int) or x >= n - 1
    s = rstr(rng, 5)
    p = rstr(rng, 2)
    sl, pl = lit(s), lit(p)
    bi = boundary_indices(s)
    sa, sb = rng.choice(bi), rng.choice(bi)
    slen = len(s.encode("utf8"))
    nt_s = (not s.isascii()) or sa >= slen
    if k == 0:
        return "&[%s]" % ety, "konst::slice::slice_from(%s, %s)" % (arr_t, a), edge(a)
    if k == 1:
        return "&[%s]" % ety, "konst::slice::slice_up_to(%s, %s)" % (arr_t, a), edge(a)
    if k == 2:
        return "&[%s]" % ety, "konst::slice::slice_range(%s, %s, %s)" % (arr_t, a, b), edge(a) or edge(b)
    if k == 3:
        return "Option<&[%s]>" % ety, "konst::slice::get_from(%s, %s)" % (arr_t, a), edge(a)
    if k == 4:
        return "Option<&[%s]>" % ety, "konst::slice::get_up_to(%s, %s)" % (arr_t, a), edge(a)
    if k == 5:
        return "Option<&[%s]>" % ety, "konst::slice::get_range(%s, %s, %s)" % (arr_t, a, b), edge(a) or edge(b)
    if k == 6:
        return "(&[%s], &[%s])" % (ety, ety), "konst::slice::split_at(%s, %s)" % (arr_t, a), edge(a)
    if k == 7:
        return "Option<&%s>" % ety, "konst::slice::get(%s, %s)" % (arr_t, a), edge(a)
    if k == 8:
        m = rng.randint(0, 4)
        return "bool", "konst::slice::try_into_array::<%s, %d>(%s).is_ok()" % (ety, m, arr_t), m == n
    if k == 9:
        m = rng.randint(1, 4)
        return "(usize, &[%s])" % ety, "{ let (c, r) = konst::slice::as_chunks::<%s, %d>(%s); (c.len(), r) }" % (ety, m, arr_t), n % m != 0
    if k == 10:
        m = rng.randint(1, 4)
        return "(&[%s], usize)" % ety, "{ let (r, c) = konst::slice::as_rchunks::<%s, %d>(%s); (r, c.len()) }" % (ety, m, arr_t), n % m != 0
    if k == 11:
        m = rng.randint(1, 3)
        fn = rng.choice(["windows", "chunks", "rchunks", "chunks_exact", "rchunks_exact"])
        end = rng.choice(["next", "next_back"])
        return "Option<&[%s]>" % ety, "match konst::slice::%s(%s, %d).%s() { Some((x, _)) => Some(x), None => None }" % (fn, arr_t, m, end), n > m
    # byte functions: haystack = string bytes
    pat = rng.choice([pl, "&'%s'" % rng.choice(TEXT), "&[%s]" % ", ".join(str(x) for x in p.encode("utf8")[:3])]) if True else pl
    hb = "%s.as_bytes()" % sl
    if k == 12:
        fn = rng.choice(["bytes_find", "bytes_rfind"])
        return "Option<usize>", "konst::slice::%s(%s, %s)" % (fn, hb, pat), not s.isascii()
    if k == 13:
        fn = rng.choice(["bytes_strip_prefix", "bytes_strip_suffix", "bytes_find_skip", "bytes_find_keep", "bytes_rfind_skip", "bytes_rfind_keep"])
        return "Option<&[u8]>", "konst::slice::%s(%s, %s)" % (fn, hb, pat), not s.isascii()
    if k == 14:
        fn = rng.choice(["bytes_trim_matches", "bytes_trim_start_matches", "bytes_trim_end_matches"])
        return "&[u8]", "konst::slice::%s(%s, %s)" % (fn, hb, pat), not s.isascii()
    if k == 15:
        fn = rng.choice(["bytes_trim", "bytes_trim_start", "bytes_trim_end"])
        return "&[u8]", "konst::slice::%s(%s)" % (fn, lit(" \t" + s + "\n ") + ".as_bytes()"), True
    spat = rng.choice([pl, "'%s'" % rng.choice(TEXT)])
    if k == 16:
        fn = rng.choice(["str_from", "str_up_to"])
        return "&str", "konst::string::%s(%s, %s)" % (fn, sl, sa), nt_s
    if k == 17:
        return "&str", "konst::string::str_range(%s, %s, %s)" % (sl, sa, sb), nt_s
    if k == 18:
        fn = rng.choice(["get_from", "get_up_to"])
        anyi = rng.choice(list(range(slen + 2)) + ["usize::MAX"])
        return "Option<&str>", "konst::string::%s(%s, %s)" % (fn, sl, anyi), not s.isascii()
    if k == 19:
        anyi = rng.choice(list(range(slen + 2)) + ["usize::MAX"])
        anyj = rng.choice(list(range(slen + 2)) + ["usize::MAX"])
        return "Option<&str>", "konst::string::get_range(%s, %s, %s)" % (sl, anyi, anyj), not s.isascii()
    if k == 20:
        return "(&str, &str)", "konst::string::split_at(%s, %s)" % (sl, sa), nt_s
    if k == 21:
        fn = rng.choice(["strip_prefix", "strip_suffix", "find_skip", "find_keep", "rfind_skip", "rfind_keep"])
        return "Option<&str>", "konst::string::%s(%s, %s)" % (fn, sl, spat), not s.isascii()
    if k == 22:
        fn = rng.choice(["trim_matches", "trim_start_matches", "trim_end_matches"])
        return "&str", "konst::string::%s(%s, %s)" % (fn, sl, spat), not s.isascii()
    if k == 23:
        fn = rng.choice(["split_once", "rsplit_once"])
        return "Option<(&str, &str)>", "konst::string::%s(%s, %s)" % (fn, sl, spat), not s.isascii()
    if k == 24:
        fn = rng.choice(["find", "rfind"])
        return "Option<usize>", "konst::string::%s(%s, %s)" % (fn, sl, spat), not s.isascii()
    if k == 25:
        end = rng.choice(["next", "next_back"])
        return "Option<(u32, &str)>", "match konst::string::chars(%s).%s() { Some((c, it)) => Some((c as u32, it.as_str())), None => None }" % (sl, end), not s.isascii()
    if k == 26:
        end = rng.choice(["next", "next_back"])
        return "Option<(usize, u32, &str)>", "match konst::string::char_indices(%s).%s() { Some(((i, c), it)) => Some((i, c as u32, it.as_str())), None => None }" % (sl, end), not s.isascii()
    if k == 27:
        fn = rng.choice(["split", "rsplit"])
        end = rng.choice(["next", "next_back"])
        return "Option<(&str, &str)>", "match konst::string::%s(%s, %s).%s() { Some((x, it)) => Some((x, it.remainder())), None => None }" % (fn, sl, spat, end), not s.isascii()
    if k == 28:
        fn = rng.choice(["split_terminator", "rsplit_terminator"])
        return "Option<(&str, &str)>", "match konst::string::%s(%s, %s).next() { Some((x, it)) => match it.copy().next() { Some((y, _)) => Some((x, y)), None => Some((x, it.remainder())) }, None => None }" % (fn, sl, spat), not s.isascii()
    if k == 29:
        nn = rng.choice([0, 0x7f, 0x80, 0x7ff, 0x800, 0xd7ff, 0xd800, 0xdfff, 0xe000, 0xffff, 0x10000, 0x10ffff, 0x110000, 0xffffffff, rng.randint(0, 0x110000)])
        return "Option<u32>", "match konst::chr::from_u32(%d) { Some(c) => Some(c as u32), None => None }" % nn, True
    if k == 30:
        c = rng.choice(TEXT + ["\\u{7f}", "\\u{80}", "\\u{7ff}", "\\u{800}", "\\u{ffff}", "\\u{10000}", "\\u{10ffff}", "\\0"])
        return "(usize, u8)", "{ let e = konst::chr::encode_utf8('%s'); (e.as_bytes().len(), e.as_bytes()[0]) }" % c, True
    if k == 31:
        bs = "b\"" + "".join(rng.choice(["a", "\\0", "\\xff", "b"]) for _ in range(rng.randint(0, 5))) + "\""
        fn = rng.choice(["from_bytes_until_nul", "from_bytes_with_nul"])
        return "Option<usize>", "match konst::ffi::cstr::%s(%s) { Ok(c) => Some(konst::ffi::cstr::to_bytes(c).len() + konst::ffi::cstr::to_bytes_with_nul(c).len()), Err(_) => None }" % (fn, bs), True
    if k == 32:
        op = rng.choice(["trim()", "trim_start()", "trim_end()", "trim_matches(%s)" % spat, "skip(%d)" % rng.randint(0, slen + 1), "skip_back(%d)" % rng.randint(0, slen + 1)])
        return "(&str, usize, usize)", "{ let p = konst::Parser::new(%s).%s; (p.remainder(), p.start_offset(), p.end_offset()) }" % (sl, op), not s.isascii()
    op = rng.choice(["strip_prefix(%s)" % spat, "strip_suffix(%s)" % spat, "find_skip(%s)" % spat, "rfind_skip(%s)" % spat])
    return "Option<(&str, usize, usize)>", "match konst::Parser::new(%s).%s { Ok(p) => Some((p.remainder(), p.start_offset(), p.end_offset())), Err(_) => None }" % (sl, op), not s.isascii()


def fixed():
    """macro forms that wrap unsafe blocks, evaluated in const context (seed independent)"""
    out = []
    out.append(("(u8, u32, u8, u64)", "{ #[repr(C, packed)] struct P(u8, u32, u8, u64); konst::destructure!{P(a, b, c, d) = P(1, 2, 3, 4)}; (a, b, c, d) }", True))
    out.append(("(u8, u64, u16)", "{ #[repr(C, packed)] struct Q { a: u8, b: u64, c: u16 } konst::destructure!{Q{a, b, c} = Q{a: 1, b: 2, c: 3}}; (a, b, c) }", True))
    out.append(("(u8, u128)", "{ #[repr(packed(2))] struct R(u8, u128); konst::destructure!{R(a, b) = R(7, 1 << 100)}; (a, b) }", True))
    out.append(("(u32, [u32; 2], u32)", "{ konst::destructure!{[a, rest @ .., z] = [1u32, 2, 3, 4]}; (a, rest, z) }", True))
    out.append(("(u8, (), u64)", "{ konst::destructure!{(a, b, c) = (1u8, (), 3u64)}; (a, b, c) }", True))
    out.append(("[u64; 4]", "konst::array::map!([1u8, 2, 3, 4], |x| (x as u64) << 40)", True))
    out.append(("[u8; 0]", "konst::array::map!([0u64; 0], |x| x as u8)", True))
    out.append(("[usize; 5]", "konst::array::from_fn!(|i| i * i)", True))
    out.append(("[u16; 3]", "konst::array::map_!([1u16, 2, 3], |x| x * 3)", True))
    out.append(("[usize; 4]", "konst::array::from_fn_!(|i| i + 10)", True))
    out.append(("[u32; 4]", "konst::iter::collect_const!(u32 => 0..10u32, filter(|x| *x % 3 == 0))", True))
    out.append(("[(usize, &u8); 3]", "konst::iter::collect_const!((usize, &u8) => &[5u8, 6, 7], enumerate())", True))
    out.append(("&str", "konst::string::from_iter!(&[\"é\", \"\", \"漢\"], flat_map(|s| &[*s, \"-\"]))", True))
    out.append(("&str", "konst::string::str_concat!(&[\"a\", \"é\", \"😀\"])", True))
    out.append(("[u8; 3]", "{ let mut b = konst::array::ArrayBuilder::<u8, 3>::new(); b.push(1); b.push(2); b.push(3); b.build() }", True))
    out.append(("(u8, u8, usize)", "{ let mut c = konst::array::ArrayConsumer::new([1u8, 2, 3]); let a = core::mem::ManuallyDrop::into_inner(c.next().unwrap()); let z = core::mem::ManuallyDrop::into_inner(c.next_back().unwrap()); let n = c.as_slice().len(); core::mem::forget(c); (a, z, n) }", True))
    return out


KNOWN_PTR = "deprecated-ptr-null-test-on-out-of-bounds-pointer"


def ptr_family():
    """konst::ptr::is_null / ptr::nonnull::new (safe const fns that transmute the pointer to Option<NonNull<T>>) on pointers
    into, one past and beyond a constant allocation.  4th element: the known-finding signature when the pointer is beyond
    one-past-the-end (the const evaluator cannot decide null-ness there and reports the transmute as an invalid value)."""
    out = []
    for n in (1, 4):
        arr = "[" + ", ".join(str(i + 1) for i in range(n)) + "]"
        for off in (0, n - 1, n, n + 1, n + 100, "usize::MAX", "(isize::MAX as usize)"):
            oob = not isinstance(off, int) or off > n
            base = "{ const A: &[u8; %d] = &%s; A.as_ptr().wrapping_add(%s) }" % (n, arr, off)
            tag = KNOWN_PTR if oob else None
            out.append(("bool", "{ #[allow(deprecated)] let r = konst::ptr::is_null(%s); r }" % base, True, tag))
            out.append(("bool", "{ #[allow(deprecated)] let r = konst::ptr::nonnull::new(%s as *mut u8); r.is_none() }" % base, True, tag))
    out.append(("bool", "{ #[allow(deprecated)] let r = konst::ptr::is_null(core::ptr::null::<u64>()); r }", True, None))
    out.append(("bool", "{ #[allow(deprecated)] let r = konst::ptr::nonnull::new(core::ptr::null_mut::<u64>()); r.is_none() }", True, None))
    out.append(("bool", "{ #[allow(deprecated)] let r = konst::ptr::is_null(&100u32); r }", True, None))
    out.append(("bool", "{ #[allow(deprecated)] let r = konst::ptr::is_null(\"abc\" as *const str); r }", True, None))
    return out


def block(i, g):
    ty, expr, nt = g[:3]
    return "    { const K: %s = %s; let r: %s = %s; if K != r { println!(\"FAIL %d const={:?} runtime={:?}\", K, r); } }" % (ty, expr, ty, expr, i)


def single(g):
    ty, expr, nt = g[:3]
    return "#![allow(unused)]\npub const K: %s = %s;\n" % (ty, expr), "#![allow(unused)]\npub fn r() { let _r: %s = %s; }\n" % (ty, expr)


def run(prop, tier, seed, out, timeout, **kw):
    t0 = time.time()
    rng = random.Random(seed * 271 + 1)
    n = 600 if tier == "quick" else 6000
    gens = fixed() + [gen(rng) for _ in range(n)]
    violations = []
    per = 600
    evaluations = 0
    known = {s: d for s, d in driver.load_known(prop)}
    known_hits = 0
    chunks = [gens[b:b + per] for b in range(0, len(gens), per)]
    # the pointer family goes last, in a chunk of its own (while the listed finding exists its batch does not build and
    # every constant of the chunk is compiled alone)
    chunks.append(ptr_family())
    gens = gens + chunks[-1]
    for b, chunk in enumerate(chunks):
        b = b * per
        src = "#![allow(unused, clippy::all)]\nfn main() {\n" + "\n".join(block(i, g) for i, g in enumerate(chunk)) + "\n    println!(\"DONE\");\n}\n"
        name = "c01_const%d" % (b // per)
        driver.write_bin(name, src)
        ok, outp = driver.build_bin(name)
        if not ok:
            okl, outl = driver.build_lib()
            if not okl:
                return 2, "[gen_const] konst does not build:\n" + outl[-3000:]
            fulls, twins = zip(*[single(g) for g in chunk])
            vf = driver.rustc_verdicts(list(fulls))
            vt = driver.rustc_verdicts(list(twins))
            bad_twin = [i for i in range(len(chunk)) if vt[i][0] != 0]
            if bad_twin:
                return 2, "[gen_const] the run-time twin does not compile (generator error):\n%s\n%s" % (twins[bad_twin[0]], vt[bad_twin[0]][1][-1500:])
            rej = [i for i in range(len(chunk)) if vf[i][0] != 0]
            if not rej:
                return 2, "[gen_const] batch does not build although every constant builds alone:\n" + outp[-3000:]
            for i in rej:
                tag = chunk[i][3] if len(chunk[i]) > 3 else None
                if tag and tag in known and "E0080" in vf[i][1] and ("invalid tag" in vf[i][1] or "enum tag" in vf[i][1]):
                    # listed finding: exactly this template, a pointer beyond one-past-the-end, rejected by the const
                    # evaluator as an invalid Option<NonNull> tag; the run-time twin compiled (checked above)
                    known_hits += 1
                    continue
                violations.append((chunk[i], "const evaluation failed (UB or panic in const context): " + vf[i][1].strip()[-700:], fulls[i]))
            # the constants that do evaluate still get their const-vs-run-time comparison
            chunk = [g for i, g in enumerate(chunk) if i not in set(rej)]
            src = "#![allow(unused, clippy::all)]\nfn main() {\n" + "\n".join(block(i, g) for i, g in enumerate(chunk)) + "\n    println!(\"DONE\");\n}\n"
            driver.write_bin(name, src)
            ok, outp = driver.build_bin(name)
            if not ok:
                return 2, "[gen_const] batch of the accepted constants does not build:\n" + outp[-3000:]
        rc, outr, dt = driver.run_bin(name, timeout=timeout)
        if rc != 0 or "DONE" not in outr:
            return 2, "[gen_const] run failed:\n" + outr[-3000:]
        evaluations += len(chunk)
        for line in outr.splitlines():
            if line.startswith("FAIL "):
                i = int(line.split()[1])
                violations.append((chunk[i], line, single(chunk[i])[0]))
    nontriv = {g[1] for g in gens if g[2]}
    samples = [g[1] for g in gens if g[2]][:10]
    text = []
    rc = 0
    violations.sort(key=lambda v: len(v[0][1]))
    for g, ev, src in violations[:5]:
        path = driver.save_replay(prop, ENGINE, "const", {"property": prop, "engine": ENGINE, "case": {"type": g[0], "expr": g[1]}, "evidence": [ev], "rendered": src})
        text.append("  const K: %s = %s;\n    %s" % (g[0], g[1], ev[:400]))
        text.append("VIOLATION property=%s replay=%s" % (prop, path))
        rc = 1
    for sig, desc in known.items():
        text.append("KNOWN-FINDING: property=%s %s (signature=%s, hits this run=%d)" % (prop, desc, sig, known_hits))
    wall = time.time() - t0
    text.append("[%s %s] programs=%d evaluations=%d distinct_nontrivial=%d violations=%d wall=%.1fs" % (prop, ENGINE, len(gens), evaluations, len(nontriv), len(violations), wall))
    driver.write_evidence(out, prop, ENGINE, tier, seed, wall, max(evaluations, 1), len(nontriv), RULE, samples, len(violations), programs=len(gens),
                          assumptions=["rustc's const evaluator rejects UB it executes (dangling/out-of-bounds pointer arithmetic, uninitialised reads, invalid values)"])
    return rc, "\n".join(text) + "\n"


def replay(prop, path, **kw):
    body = json.load(open(path))
    ok, outp = driver.build_lib()
    if not ok:
        return 2, outp[-3000:]
    v = driver.rustc_verdicts([body["rendered"]])
    if v[0][0] != 0:
        return 1, v[0][1][-1500:] + "\nVIOLATION property=%s replay=%s\n" % (prop, path)
    return 0, "replay: the constant evaluates now; re-run the check for the const-vs-runtime comparison\n"

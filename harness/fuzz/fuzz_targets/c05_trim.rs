#![no_main]
#![allow(dead_code, unused)]
#[path = "../../src/bin/c05.rs"]
mod eng;
use arbitrary::Unstructured;
use libfuzzer_sys::fuzz_target;

fuzz_target!(|data: &[u8]| {
    kvh::fuzz_init();
    let mut u = Unstructured::new(data);
    let Ok(t) = u.arbitrary::<(Vec<u8>, u8, Vec<u8>, u8, u8, u8)>() else { return };
    let m = |v: Vec<u8>, cap: usize| -> Vec<u8> { v.into_iter().take(cap).map(|x| x % 3).collect() };
    let c = eng::fold_case(&(m(t.0, 4), (t.1 % 6) as usize, m(t.2, 12), (t.3 % 6) as usize, (t.4 % 5) as usize, (t.5 % 5) as usize));
    if let Err(e) = eng::run_case(&c) { panic!("C05 violation: {e}"); }
});

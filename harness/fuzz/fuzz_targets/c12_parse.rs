#![no_main]
#![allow(dead_code, unused)]
#[path = "../../src/bin/c12.rs"]
mod eng;
use arbitrary::Unstructured;
use libfuzzer_sys::fuzz_target;

fuzz_target!(|data: &[u8]| {
    kvh::fuzz_init();
    let mut u = Unstructured::new(data);
    let Ok(t) = u.arbitrary::<(u8, Vec<u8>)>() else { return };
    let syms: Vec<usize> = t.1.into_iter().take(44).map(|x| (x % 14) as usize).collect();
    let c = eng::fold_case((t.0 % 13) as usize, &syms);
    if let Err(e) = eng::run_case(&c) { panic!("C12 violation: {e}"); }
});

#![no_main]
#![allow(dead_code, unused)]
#[path = "../../src/bin/c16.rs"]
mod eng;
use arbitrary::Unstructured;
use libfuzzer_sys::fuzz_target;

fuzz_target!(|data: &[u8]| {
    kvh::fuzz_init();
    let mut u = Unstructured::new(data);
    let Ok(t) = u.arbitrary::<(u8, Vec<u8>, Vec<u8>, bool, bool, u8)>() else { return };
    let m = |v: Vec<u8>| -> Vec<usize> { v.into_iter().take(40).map(|x| (x % 3) as usize).collect() };
    let c = eng::fold_case(&((t.0 % 14) as usize, m(t.1), m(t.2), t.3, t.4, (t.5 % 4) as usize));
    if let Err(e) = eng::run_case(&c) { panic!("C16 violation: {e}"); }
});

#![no_main]
#![allow(dead_code, unused)]
#[path = "../../src/bin/c13.rs"]
mod eng;
use arbitrary::Unstructured;
use libfuzzer_sys::fuzz_target;

fuzz_target!(|data: &[u8]| {
    kvh::fuzz_init();
    let mut u = Unstructured::new(data);
    let Ok(t) = u.arbitrary::<(Vec<u8>, u8, Vec<(u8, u8, u8)>)>() else { return };
    let syms: Vec<usize> = t.0.into_iter().take(36).map(|x| (x % 8) as usize).collect();
    let ops: Vec<(usize, usize, usize)> = t.2.into_iter().take(12).map(|(a, b, c)| ((a % 18) as usize, (b % 11) as usize, (c % 8) as usize)).collect();
    if ops.is_empty() { return; }
    let c = eng::fold_case(&(syms, (t.1 % 6) as usize, ops));
    let mut w = eng::Walk::default();
    if let Err(e) = eng::run_case(&c, true, &mut w) { panic!("C13 violation: {e}"); }
    let mut w = eng::Walk::default();
    if let Err(e) = eng::run_case(&c, false, &mut w) { panic!("C14 violation: {e}"); }
});

#![no_main]
#![allow(dead_code, unused)]
#[path = "../../src/bin/c03.rs"]
mod eng;
use arbitrary::Unstructured;
use libfuzzer_sys::fuzz_target;

fuzz_target!(|data: &[u8]| {
    kvh::fuzz_init();
    let mut u = Unstructured::new(data);
    let Ok(t) = u.arbitrary::<(Vec<char>, (u8, usize), Option<(u8, usize)>)>() else { return };
    let chars: Vec<char> = t.0.into_iter().take(20).collect();
    let c = eng::fold_case(&chars, (t.1 .0 % 3, t.1 .1), t.2.map(|x| (x.0 % 3, x.1)));
    if let Err(e) = eng::run_case(&c) { panic!("C03 violation: {e}"); }
});

#![no_main]
#![allow(dead_code, unused)]
#[path = "../../src/bin/c09.rs"]
mod eng;
use arbitrary::Unstructured;
use libfuzzer_sys::fuzz_target;

fuzz_target!(|data: &[u8]| {
    kvh::fuzz_init();
    let mut u = Unstructured::new(data);
    let Ok(t) = u.arbitrary::<(u8, u8, u8, i8, u8, i8, u64, u8)>() else { return };
    let c = eng::fold_case(&((t.0 % 13) as usize, (t.1 % 3) as usize, t.2 % 3, t.3 as i64, t.4 % 3, t.5 as i64, t.6, (t.7 % 64) as u32 + 1));
    match eng::run_case(&c) {
        // the listed known finding (take(n) pulls an (n+1)-th item: debug overflow assertion at the type's MAX);
        // excluded by its signature so that the campaign continues behind it
        Err(m) if m.starts_with("TAKE_EXTRA_PULL") && m.contains("!overflowed") => {}
        Err(e) => panic!("C09 violation: {e}"),
        Ok(()) => {}
    }
});

#![no_main]
#![allow(dead_code, unused)]
#[path = "../../src/bin/c06.rs"]
mod eng;
use arbitrary::Unstructured;
use libfuzzer_sys::fuzz_target;

fuzz_target!(|data: &[u8]| {
    kvh::fuzz_init();
    let mut u = Unstructured::new(data);
    let Ok(t) = u.arbitrary::<(Vec<u8>, Vec<u8>, bool, Option<u32>)>() else { return };
    let m = |v: Vec<u8>, cap: usize| -> Vec<usize> { v.into_iter().take(cap).map(|x| (x % 4) as usize).collect() };
    let c = eng::fold_case(&(m(t.0, 24), m(t.1, 3), t.2, t.3));
    if let Err(e) = eng::run_case(&c) { panic!("C06 violation: {e}"); }
});

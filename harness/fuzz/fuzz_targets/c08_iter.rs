#![no_main]
#![allow(dead_code, unused)]
#[path = "../../src/bin/c08.rs"]
mod eng;
use arbitrary::Unstructured;
use libfuzzer_sys::fuzz_target;

fuzz_target!(|data: &[u8]| {
    kvh::fuzz_init();
    let mut u = Unstructured::new(data);
    let Ok(t) = u.arbitrary::<(u8, u8, bool, u16, u16, u64)>() else { return };
    // lengths up to 300 (so that sizes and lengths cross 2^8), sizes 1..=270
    let c = eng::fold_case(&((t.0 % 8) as usize, (t.1 % 3) as usize, t.2, (t.3 % 301) as usize, (t.4 % 270) as usize + 1, t.5));
    if let Err(e) = eng::run_case(&c) { panic!("C08 violation: {e}"); }
});

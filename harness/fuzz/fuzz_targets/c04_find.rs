#![no_main]
#![allow(dead_code, unused)]
#[path = "../../src/bin/c04.rs"]
mod eng;
use arbitrary::Unstructured;
use libfuzzer_sys::fuzz_target;

fuzz_target!(|data: &[u8]| {
    kvh::fuzz_init();
    let mut u = Unstructured::new(data);
    let Ok(t) = u.arbitrary::<(Vec<u8>, Vec<u8>, Vec<u8>, bool)>() else { return };
    let m = |v: Vec<u8>, cap: usize| -> Vec<u8> { v.into_iter().take(cap).map(|x| x % 3).collect() };
    let k = 2 + (t.2.first().copied().unwrap_or(0) % 7);
    let m = |v: Vec<u8>, cap: usize| -> Vec<u8> { v.into_iter().take(cap).map(|x| x % k).collect() };
    let c = eng::fold_case(&(m(t.0, 48), m(t.1, 20), m(t.2, 3), t.3));
    if let Err(e) = eng::run_case(&c) { panic!("C04 violation: {e}"); }
});

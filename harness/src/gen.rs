//! Exhaustive enumerators and shared alphabets.

/// one char of each UTF-8 length
pub const TEXT4: [&str; 4] = ["a", "é", "漢", "😀"];
/// boundary scalars
pub const BOUNDARY_CHARS: [char; 9] = [
    '\u{0}', '\u{7f}', '\u{80}', '\u{7ff}', '\u{800}', '\u{ffff}', '\u{10000}', '\u{10ffff}',
    '\u{d7ff}',
];

/// All sequences of length 0..=max over `alphabet`, shortest first; calls `f` with each.
pub fn for_each_seq<T: Copy>(alphabet: &[T], max: usize, mut f: impl FnMut(&[T])) {
    let mut buf: Vec<T> = Vec::with_capacity(max);
    let k = alphabet.len();
    for len in 0..=max {
        if len > 0 && k == 0 {
            break;
        }
        let mut idx = vec![0usize; len];
        'outer: loop {
            buf.clear();
            buf.extend(idx.iter().map(|&i| alphabet[i]));
            f(&buf);
            let mut p = len;
            loop {
                if p == 0 {
                    break 'outer;
                }
                p -= 1;
                idx[p] += 1;
                if idx[p] < k {
                    break;
                }
                idx[p] = 0;
            }
        }
    }
}

pub fn seqs<T: Copy>(alphabet: &[T], max: usize) -> Vec<Vec<T>> {
    let mut v = Vec::new();
    for_each_seq(alphabet, max, |s| v.push(s.to_vec()));
    v
}

/// All strings made of 0..=max pieces from `alphabet` (pieces are whole chars / strs).
pub fn strings(alphabet: &[&str], max: usize) -> Vec<String> {
    let mut v = Vec::new();
    for_each_seq(alphabet, max, |s| v.push(s.concat()));
    v
}

/// Indices worth trying against a container of length `n`.
pub fn index_set(n: usize) -> Vec<usize> {
    let mut v: Vec<usize> = (0..=n + 2).collect();
    v.extend_from_slice(&[
        usize::MAX,
        usize::MAX - 1,
        isize::MAX as usize,
        isize::MAX as usize + 1,
        isize::MAX as usize - 1,
        usize::MAX - n,
        (usize::MAX - n).wrapping_add(1),
    ]);
    v.sort_unstable();
    v.dedup();
    v
}

/// Is `i` "near or beyond" the length (the non-trivial index rule used by C01/C02)?
pub fn edgy_index(i: usize, n: usize) -> bool {
    i.saturating_add(1) >= n
}

/// history bits: bit i of `h` = take step i from the back
pub fn history_bits(h: u32, k: u32) -> impl Iterator<Item = bool> {
    (0..k).map(move |i| (h >> i) & 1 == 1)
}

/// does the byte string have a proper border (prefix == suffix, 0 < len < n)?
pub fn has_border(p: &[u8]) -> bool {
    (1..p.len()).any(|k| p[..k] == p[p.len() - k..])
}

pub fn naive_find(h: &[u8], n: &[u8]) -> Option<usize> {
    if n.len() > h.len() {
        return None;
    }
    (0..=h.len() - n.len()).find(|&i| &h[i..i + n.len()] == n)
}
pub fn naive_rfind(h: &[u8], n: &[u8]) -> Option<usize> {
    if n.len() > h.len() {
        return None;
    }
    (0..=h.len() - n.len()).rev().find(|&i| &h[i..i + n.len()] == n)
}

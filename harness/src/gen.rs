//! Exhaustive enumerators and shared alphabets.

/// one char of each UTF-8 length
pub const TEXT4: [&str; 4] = ["a", "é", "漢", "😀"];
/// boundary scalars
pub const BOUNDARY_CHARS: [char; 9] = [
    '\u{0}', '\u{7f}', '\u{80}', '\u{7ff}', '\u{800}', '\u{ffff}', '\u{10000}', '\u{10ffff}',
    '\u{d7ff}',
];

/// For every UTF-8 lead byte (0xC2..=0xF4) the smallest and the largest scalar whose encoding starts with it,
/// and for ASCII the two ends: 104 chars that together contain every lead byte and, in each continuation
/// position, both 0x80 and 0xBF (table-driven decoders indexed by the lead byte slip on one entry)
pub fn lead_byte_chars() -> Vec<char> {
    let mut out = vec!['\u{0}', '\u{7f}'];
    let mut push = |lo: u32, hi: u32| {
        for n in [lo, hi] {
            // move out of the surrogate gap
            let n = if (0xD800..0xE000).contains(&n) { if n == lo { 0xE000 } else { 0xD7FF } } else { n };
            if let Some(c) = char::from_u32(n.min(0x10FFFF)) {
                if !out.contains(&c) {
                    out.push(c);
                }
            }
        }
    };
    for lead in 0xC2u32..=0xDF {
        push((lead & 0x1F) << 6, ((lead & 0x1F) << 6) | 0x3F);
    }
    for lead in 0xE0u32..=0xEF {
        let lo = ((lead & 0x0F) << 12).max(0x800);
        push(lo, ((lead & 0x0F) << 12) | 0xFFF);
    }
    for lead in 0xF0u32..=0xF4 {
        let lo = ((lead & 0x07) << 18).max(0x10000);
        push(lo, (((lead & 0x07) << 18) | 0x3FFFF).min(0x10FFFF));
    }
    out
}

/// For a 2-, 3- and 4-byte char: the char followed by one partner per byte position whose encoding differs from it
/// in exactly that byte (matchers that compare encodings byte by byte and skip one position confuse the two)
pub fn one_byte_partner_sets() -> Vec<Vec<char>> {
    let mut out = Vec::new();
    for base in ['é', '个', '😀'] {
        let mut buf = [0u8; 4];
        let enc = base.encode_utf8(&mut buf).as_bytes().to_vec();
        let mut set = vec![base];
        for j in 0..enc.len() {
            // flip one byte to a neighbouring value that keeps the encoding valid
            for delta in [1i16, -1, 0x10, -0x10, 0x40 - 0x100] {
                let mut e = enc.clone();
                e[j] = (e[j] as i16 + delta).rem_euclid(256) as u8;
                if let Ok(st) = std::str::from_utf8(&e) {
                    let mut cs = st.chars();
                    if let (Some(c), None) = (cs.next(), cs.next()) {
                        if c != base && c.len_utf8() == enc.len() && !set.contains(&c) {
                            set.push(c);
                            break;
                        }
                    }
                }
            }
        }
        out.push(set);
    }
    out
}

/// strings of up to `max` chars over each partner set plus 'a'
pub fn one_byte_partner_strings(max: usize) -> Vec<(Vec<char>, Vec<String>)> {
    one_byte_partner_sets()
        .into_iter()
        .map(|set| {
            let mut alpha: Vec<String> = set.iter().map(|c| c.to_string()).collect();
            alpha.push("a".into());
            let refs: Vec<&str> = alpha.iter().map(|x| x.as_str()).collect();
            let strs = strings(&refs, max);
            (set, strs)
        })
        .collect()
}

/// short strings around each char of `lead_byte_chars`: alone, next to ASCII, next to a 2-byte char, doubled,
/// and next to its successor in the table
pub fn lead_byte_strings() -> Vec<String> {
    let cs = lead_byte_chars();
    let mut out = Vec::new();
    for (i, &c) in cs.iter().enumerate() {
        let nx = cs[(i + 1) % cs.len()];
        out.push(format!("{c}"));
        out.push(format!("a{c}"));
        out.push(format!("{c}a"));
        out.push(format!("{c}é"));
        out.push(format!("é{c}z"));
        out.push(format!("{c}{c}"));
        out.push(format!("{c}{nx}"));
        out.push(format!("x{c}y{nx}z"));
    }
    out
}

/// chars that some layer treats specially although str / [u8] functions must not: byte order mark, replacement
/// char, Unicode white space and line separators, zero-width chars, fullwidth digit, DEL, ESC
pub const SPECIAL_CHARS: [char; 16] = [
    '\u{feff}', '\u{fffd}', '\u{2028}', '\u{2029}', '\u{85}', '\u{a0}', '\u{200b}', '\u{200d}', '\u{3000}', '\u{1680}', '\u{202f}',
    '\u{205f}', '\u{ff10}', '\u{7f}', '\u{1b}', '\u{fffe}',
];

/// each special char alone, at the start, in the middle and at the end of a short text
pub fn special_char_strings() -> Vec<String> {
    let mut out = Vec::new();
    for c in SPECIAL_CHARS {
        for s in [format!("{c}"), format!("{c}a,b 1"), format!("a{c},b"), format!("a,b 1{c}"), format!("{c}{c}"), format!(" {c} ")] {
            out.push(s);
        }
    }
    out
}

/// All sequences of length 0..=max over `alphabet`, shortest first; calls `f` with each.
pub fn for_each_seq<T: Copy>(alphabet: &[T], max: usize, mut f: impl FnMut(&[T])) {
    let mut buf: Vec<T> = Vec::with_capacity(max);
    let k = alphabet.len();
    for len in 0..=max {
        if len > 0 && k == 0 {
            break;
        }
        let mut idx = vec![0usize; len];
        'outer: loop {
            buf.clear();
            buf.extend(idx.iter().map(|&i| alphabet[i]));
            f(&buf);
            let mut p = len;
            loop {
                if p == 0 {
                    break 'outer;
                }
                p -= 1;
                idx[p] += 1;
                if idx[p] < k {
                    break;
                }
                idx[p] = 0;
            }
        }
    }
}

pub fn seqs<T: Copy>(alphabet: &[T], max: usize) -> Vec<Vec<T>> {
    let mut v = Vec::new();
    for_each_seq(alphabet, max, |s| v.push(s.to_vec()));
    v
}

/// All strings made of 0..=max pieces from `alphabet` (pieces are whole chars / strs).
pub fn strings(alphabet: &[&str], max: usize) -> Vec<String> {
    let mut v = Vec::new();
    for_each_seq(alphabet, max, |s| v.push(s.concat()));
    v
}

/// Indices worth trying against a container of length `n`.
pub fn index_set(n: usize) -> Vec<usize> {
    let mut v: Vec<usize> = (0..=n + 2).collect();
    v.extend_from_slice(&[
        usize::MAX,
        usize::MAX - 1,
        isize::MAX as usize,
        isize::MAX as usize + 1,
        isize::MAX as usize - 1,
        usize::MAX - n,
        (usize::MAX - n).wrapping_add(1),
    ]);
    // values congruent to a small (valid) index modulo 2^8 / 2^16 / 2^32: an index or length that is narrowed to a
    // smaller integer type somewhere on the way turns these into in-range values
    v.extend(congruent(n));
    v.sort_unstable();
    v.dedup();
    v
}

/// `small + 2^k` for k in {8, 16, 32} (and 2^63) and small in {0, 1, n/2, n}: out of range for every container these
/// engines build, in range after a truncating cast
pub fn congruent(n: usize) -> Vec<usize> {
    let mut v = Vec::new();
    for k in [8u32, 16, 32, 63] {
        for small in [0usize, 1, n / 2, n] {
            v.push((1usize << k) + small);
        }
    }
    v
}

/// Is `i` "near or beyond" the length (the non-trivial index rule used by C01/C02)?
pub fn edgy_index(i: usize, n: usize) -> bool {
    i.saturating_add(1) >= n
}

/// history bits: bit i of `h` = take step i from the back
pub fn history_bits(h: u32, k: u32) -> impl Iterator<Item = bool> {
    (0..k).map(move |i| (h >> i) & 1 == 1)
}

/// does the byte string have a proper border (prefix == suffix, 0 < len < n)?
pub fn has_border(p: &[u8]) -> bool {
    (1..p.len()).any(|k| p[..k] == p[p.len() - k..])
}

pub fn naive_find(h: &[u8], n: &[u8]) -> Option<usize> {
    if n.len() > h.len() {
        return None;
    }
    (0..=h.len() - n.len()).find(|&i| &h[i..i + n.len()] == n)
}
pub fn naive_rfind(h: &[u8], n: &[u8]) -> Option<usize> {
    if n.len() > h.len() {
        return None;
    }
    (0..=h.len() - n.len()).rev().find(|&i| &h[i..i + n.len()] == n)
}

//! Shared core of the konst verification harness.
//!
//! No konst dependency in here: seeds, argument parsing, counters / labels,
//! evidence JSON, replay files, silent panic hook, known-findings file,
//! exhaustive enumerators and a thin proptest driver.

pub mod gen;

use proptest::strategy::Strategy;
use proptest::test_runner::{Config, RngSeed, TestCaseError, TestError, TestRunner};
use serde::Serialize;
use serde_json::{json, Value};
use std::cell::RefCell;
use std::collections::hash_map::DefaultHasher;
use std::collections::{BTreeMap, HashSet};
use std::hash::{Hash, Hasher};
use std::panic::{catch_unwind, AssertUnwindSafe};
use std::path::PathBuf;
use std::time::Instant;

/// root of the verification framework: `KVH_VERIF_DIR` (set by /verif/check to its own directory, so that a copy of
/// the framework elsewhere writes its replays into that copy) or /verif
pub fn verif_dir() -> String {
    std::env::var("KVH_VERIF_DIR").unwrap_or_else(|_| "/verif".to_string())
}
pub const DEFAULT_SEED: u64 = 20261001;

#[derive(Clone, Copy, PartialEq, Eq, Debug)]
pub enum Tier {
    Quick,
    Thorough,
}

#[derive(Clone, Debug)]
pub struct Args {
    pub prop: String,
    pub engine: String,
    pub tier: Tier,
    pub seed: u64,
    pub replay: Option<PathBuf>,
    pub mode: String,
    pub out: PathBuf,
}

/// `<bin> <quick|thorough> [--replay FILE] [--mode M] [--out FILE] [--property ID]`
pub fn parse_args(default_prop: &str, engine: &str) -> Args {
    let mut tier = Tier::Quick;
    let mut replay = None;
    let mut mode = String::from("native");
    let mut out = None;
    let mut prop = default_prop.to_string();
    let mut it = std::env::args().skip(1);
    while let Some(a) = it.next() {
        match a.as_str() {
            "quick" => tier = Tier::Quick,
            "thorough" => tier = Tier::Thorough,
            "--replay" => replay = it.next().map(PathBuf::from),
            "--mode" => mode = it.next().expect("--mode M"),
            "--out" => out = it.next().map(PathBuf::from),
            "--property" => prop = it.next().expect("--property ID"),
            other => {
                eprintln!("unknown argument {other}");
                std::process::exit(2);
            }
        }
    }
    let seed = std::env::var("VERIF_SEED")
        .ok()
        .and_then(|s| s.trim().parse::<i128>().ok())
        .map(|v| v as u64)
        .unwrap_or(DEFAULT_SEED);
    let out = out.unwrap_or_else(|| {
        PathBuf::from(format!("{}/work/{prop}/{engine}-{mode}.json", verif_dir()))
    });
    Args {
        prop,
        engine: engine.to_string(),
        tier,
        seed,
        replay,
        mode,
        out,
    }
}

thread_local! {
    static QUIET: std::cell::Cell<u32> = const { std::cell::Cell::new(0) };
}
struct QuietGuard;
impl QuietGuard {
    fn new() -> QuietGuard {
        QUIET.with(|q| q.set(q.get() + 1));
        QuietGuard
    }
}
impl Drop for QuietGuard {
    fn drop(&mut self) {
        QUIET.with(|q| q.set(q.get().saturating_sub(1)));
    }
}

/// Panics inside `catch` / `Ctx::case` / `Ctx::prop` are silent; others are printed.
pub fn silence_panics() {
    let default = std::panic::take_hook();
    std::panic::set_hook(Box::new(move |info| {
        let text = format!("{info}");
        if text.contains("unsafe precondition") || text.contains("misaligned pointer") || text.contains("null pointer dereference") {
            // non-unwinding panics raised by std's debug checks of unsafe preconditions: the process aborts
            eprintln!("NON-UNWINDING PANIC (process aborts): {text}");
            // which konst function and which engine function were running (the case itself cannot be printed from here)
            let bt = format!("{}", std::backtrace::Backtrace::force_capture());
            let keep: Vec<&str> = bt.lines().filter(|l| l.contains("konst") || l.contains("kvh") || l.contains("/verif/") || l.contains("/repo/")).take(24).collect();
            eprintln!("backtrace (konst / engine frames):\n{}", keep.join("\n"));
        } else if QUIET.with(|q| q.get()) == 0 {
            default(info);
        }
    }));
}

/// For libFuzzer targets: libfuzzer-sys installs a hook that aborts on *every* panic, also on the ones an oracle
/// expects and catches (`catch`: "this call must panic").  This replaces it (once) with a hook that lets panics
/// inside `catch` unwind silently and still aborts - after printing - on any other panic, so that an oracle
/// failure (`panic!("Cxx violation: ..")`) or an unexpected panic is reported as a crash with its input.
pub fn fuzz_init() {
    static ONCE: std::sync::Once = std::sync::Once::new();
    ONCE.call_once(|| {
        std::panic::set_hook(Box::new(|info| {
            if QUIET.with(|q| q.get()) > 0 {
                return;
            }
            eprintln!("{info}");
            std::process::abort();
        }));
    });
}

/// Runs the engine on a thread with Rust's default thread stack (2 MiB) instead of the 8 MiB main-thread stack: the
/// functions under test are meant to be usable from any thread, and a recursion whose depth grows with the input
/// shows up four times earlier.
pub fn on_thread(f: fn()) {
    let h = std::thread::Builder::new().name("engine".into()).stack_size(2 << 20).spawn(f).expect("spawn engine thread");
    if h.join().is_err() {
        std::process::exit(101);
    }
}

pub fn panic_message(e: Box<dyn std::any::Any + Send>) -> String {
    if let Some(s) = e.downcast_ref::<&str>() {
        s.to_string()
    } else if let Some(s) = e.downcast_ref::<String>() {
        s.clone()
    } else {
        "<non-string panic payload>".to_string()
    }
}

/// Runs `f`, returning `Err(message)` if it panicked.
pub fn catch<R>(f: impl FnOnce() -> R) -> Result<R, String> {
    let _g = QuietGuard::new();
    catch_unwind(AssertUnwindSafe(f)).map_err(panic_message)
}

pub fn hash_of<H: Hash + ?Sized>(h: &H) -> u64 {
    let mut s = DefaultHasher::new();
    h.hash(&mut s);
    s.finish()
}

#[derive(Clone, Debug)]
pub struct KnownFinding {
    pub signature: String,
    pub text: String,
}

pub struct Violation {
    pub check: String,
    pub case: Value,
    pub msg: String,
    pub size: usize,
}

pub struct Ctx {
    pub args: Args,
    pub evals: u64,
    nontrivial: HashSet<u64>,
    labels: BTreeMap<String, u64>,
    samples: Vec<Value>,
    sample_labels: BTreeMap<String, u32>,
    pub violations: Vec<Violation>,
    pub violation_count: u64,
    known: Vec<KnownFinding>,
    known_hits: BTreeMap<String, u64>,
    known_samples: BTreeMap<String, Value>,
    exhaustive_parts: Vec<String>,
    random_parts: Vec<String>,
    rule: String,
    assumptions: Vec<String>,
    extra: BTreeMap<String, Value>,
    start: Instant,
    /// while proptest is shrinking, statistics are frozen
    frozen: bool,
}

pub const MAX_KEPT_VIOLATIONS: usize = 40;

impl Ctx {
    pub fn new(args: Args, rule: &str) -> Ctx {
        silence_panics();
        let known = load_known(&args.prop);
        Ctx {
            args,
            evals: 0,
            nontrivial: HashSet::new(),
            labels: BTreeMap::new(),
            samples: Vec::new(),
            sample_labels: BTreeMap::new(),
            violations: Vec::new(),
            violation_count: 0,
            known,
            known_hits: BTreeMap::new(),
            known_samples: BTreeMap::new(),
            exhaustive_parts: Vec::new(),
            random_parts: Vec::new(),
            rule: rule.to_string(),
            assumptions: Vec::new(),
            extra: BTreeMap::new(),
            start: Instant::now(),
            frozen: false,
        }
    }
    pub fn quick(&self) -> bool {
        self.args.tier == Tier::Quick
    }
    pub fn thorough(&self) -> bool {
        self.args.tier == Tier::Thorough
    }
    /// pick by tier
    pub fn by_tier<T>(&self, quick: T, thorough: T) -> T {
        if self.quick() {
            quick
        } else {
            thorough
        }
    }
    pub fn assume(&mut self, s: &str) {
        self.assumptions.push(s.to_string());
    }
    pub fn exhaustive_part(&mut self, s: &str) {
        self.exhaustive_parts.push(s.to_string());
    }
    pub fn random_part(&mut self, s: &str) {
        self.random_parts.push(s.to_string());
    }
    pub fn extra(&mut self, k: &str, v: Value) {
        self.extra.insert(k.to_string(), v);
    }
    #[inline]
    pub fn tick(&mut self) {
        if !self.frozen {
            self.evals += 1;
        }
    }
    #[inline]
    pub fn ticks(&mut self, n: u64) {
        if !self.frozen {
            self.evals += n;
        }
    }
    pub fn label(&mut self, l: &str) {
        if self.frozen {
            return;
        }
        if let Some(c) = self.labels.get_mut(l) {
            *c += 1;
        } else {
            self.labels.insert(l.to_string(), 1);
        }
    }
    pub fn label_n(&mut self, l: &str, n: u64) {
        if self.frozen || n == 0 {
            return;
        }
        *self.labels.entry(l.to_string()).or_insert(0) += n;
    }
    /// Records a non-trivial case (distinct by `key`); `sample` is rendered
    /// only for the few that are kept as samples (at most 3 per `class`).
    pub fn nontrivial<K: Hash + ?Sized>(
        &mut self,
        class: &str,
        key: &K,
        sample: impl FnOnce() -> Value,
    ) {
        if self.frozen {
            return;
        }
        let h = hash_of(&(class, hash_of(key)));
        if self.nontrivial.insert(h) {
            let n = self.sample_labels.entry(class.to_string()).or_insert(0);
            *n += 1;
            // keep the 1st, 10th, 100th ... of each class, max 4 per class
            let keep = matches!(*n, 1 | 10 | 100 | 1000) && self.samples.len() < 60;
            if keep {
                let v = sample();
                self.samples.push(json!({"class": class, "case": v}));
            }
        }
    }
    pub fn nontrivial_count(&self) -> usize {
        self.nontrivial.len()
    }
    pub fn is_known(&self, signature: &str) -> bool {
        self.known.iter().any(|k| k.signature == signature)
    }
    /// A disagreement that matches a listed known finding (caller has verified
    /// signature and alternative model).  Returns false if not listed.
    pub fn known_hit(&mut self, signature: &str, sample: impl FnOnce() -> Value) -> bool {
        if !self.is_known(signature) {
            return false;
        }
        if !self.frozen {
            *self.known_hits.entry(signature.to_string()).or_insert(0) += 1;
            if !self.known_samples.contains_key(signature) {
                self.known_samples.insert(signature.to_string(), sample());
            }
        }
        true
    }
    pub fn violation<C: Serialize>(&mut self, check: &str, case: &C, msg: String) {
        self.violation_count += 1;
        if self.violations.len() >= MAX_KEPT_VIOLATIONS {
            return;
        }
        let case = serde_json::to_value(case).unwrap_or(Value::Null);
        let size = case.to_string().len();
        self.violations.push(Violation {
            check: check.to_string(),
            case,
            msg,
            size,
        });
    }
    pub fn too_many(&self) -> bool {
        self.violation_count >= 200
    }
    /// number of violations recorded for this check name so far
    pub fn failed(&self, check: &str) -> usize {
        self.violations.iter().filter(|v| v.check == check).count()
    }

    /// Before a case whose evaluation depth or memory may depend on the input size (long-input families): records the
    /// case in `work/<property>/inflight-<engine>-<mode>.json`.  If the process then dies (stack overflow in a
    /// recursive implementation), /verif/check finds the case there and reports it as the violating input.
    pub fn inflight<C: Serialize>(&mut self, check: &str, case: &C) {
        let body = json!({
            "property": self.args.prop, "engine": self.args.engine, "check": check, "case": case,
            "mode": self.args.mode, "seed": self.args.seed,
            "message": "the process was killed while this case was being evaluated",
        });
        let path = self.inflight_path();
        if let Some(dir) = path.parent() {
            let _ = std::fs::create_dir_all(dir);
        }
        let _ = std::fs::write(&path, serde_json::to_string(&body).unwrap_or_default());
    }
    fn inflight_path(&self) -> PathBuf {
        let dir = self.args.out.parent().map(|p| p.to_path_buf()).unwrap_or_else(|| PathBuf::from(format!("{}/work/{}", verif_dir(), self.args.prop)));
        dir.join(format!("inflight-{}-{}.json", self.args.engine, self.args.mode))
    }
    /// the long-input case finished: nothing is in flight
    pub fn landed(&mut self) {
        let _ = std::fs::remove_file(self.inflight_path());
    }

    /// Runs one case of `check`: counts it, catches panics, records a violation on `Err`.
    #[inline]
    pub fn case<C: Serialize>(
        &mut self,
        check: &str,
        case: &C,
        f: impl FnOnce(&mut Ctx) -> Result<(), String>,
    ) -> bool {
        self.tick();
        let r = {
            let _g = QuietGuard::new();
            catch_unwind(AssertUnwindSafe(|| f(self)))
        };
        match r {
            Ok(Ok(())) => true,
            Ok(Err(m)) => {
                self.violation(check, case, m);
                false
            }
            Err(e) => {
                let m = format!("unexpected panic: {}", panic_message(e));
                self.violation(check, case, m);
                false
            }
        }
    }

    /// Seeded proptest run with shrinking; the minimal failing value becomes the violation.
    pub fn prop<S>(
        &mut self,
        check: &str,
        cases: u32,
        strat: S,
        f: impl Fn(&mut Ctx, &S::Value) -> Result<(), String>,
    ) where
        S: Strategy,
        S::Value: Serialize + std::fmt::Debug,
    {
        let seed = self.args.seed ^ hash_of(check);
        let cfg = Config {
            cases,
            rng_seed: RngSeed::Fixed(seed),
            failure_persistence: None,
            max_shrink_iters: 4000,
            max_global_rejects: 65536,
            ..Config::default()
        };
        self.random_part(&format!("{check}: {cases} proptest cases"));
        let mut runner = TestRunner::new(cfg);
        let cell = RefCell::new(&mut *self);
        let res = runner.run(&strat, |v| {
            let mut g = cell.borrow_mut();
            let ctx: &mut Ctx = &mut **g;
            ctx.tick();
            let r = {
                let _g = QuietGuard::new();
                catch_unwind(AssertUnwindSafe(|| f(ctx, &v)))
            };
            match r {
                Ok(Ok(())) => Ok(()),
                Ok(Err(m)) => {
                    ctx.frozen = true;
                    Err(TestCaseError::fail(m))
                }
                Err(e) => {
                    ctx.frozen = true;
                    Err(TestCaseError::fail(format!(
                        "unexpected panic: {}",
                        panic_message(e)
                    )))
                }
            }
        });
        drop(cell);
        self.frozen = false;
        match res {
            Ok(()) => {}
            Err(TestError::Fail(reason, value)) => {
                self.violation(check, &value, format!("{}", reason.message()));
            }
            Err(TestError::Abort(reason)) => {
                eprintln!("proptest aborted in {check}: {}", reason.message());
                std::process::exit(2);
            }
        }
    }

    /// Writes evidence partial + replay, prints verdict lines, returns exit code.
    pub fn finish(mut self) -> i32 {
        let wall = self.start.elapsed().as_secs_f64();
        // choose the smallest violation as the replay
        self.violations.sort_by_key(|v| v.size);
        let mut replay_paths = Vec::new();
        let mut seen_checks = HashSet::new();
        for v in &self.violations {
            if !seen_checks.insert(v.check.clone()) {
                continue;
            }
            let body = json!({
                "property": self.args.prop,
                "engine": self.args.engine,
                "mode": self.args.mode,
                "check": v.check,
                "case": v.case,
                "message": v.msg,
                "seed": self.args.seed,
            });
            let h = hash_of(&body.to_string());
            let path = format!(
                "{}/replays/{}-{}-{}-{:08x}.json",
                verif_dir(),
                self.args.prop,
                self.args.engine,
                v.check,
                h as u32
            );
            let _ = std::fs::create_dir_all(format!("{}/replays", verif_dir()));
            let _ = std::fs::write(&path, serde_json::to_string_pretty(&body).unwrap());
            replay_paths.push((path, v.check.clone(), v.msg.clone(), v.case.clone()));
        }
        let labels: BTreeMap<_, _> = self.labels.iter().collect();
        let rule = format!(
            "{} | exhaustive parts: [{}] | random parts: [{}]",
            self.rule,
            self.exhaustive_parts.join("; "),
            self.random_parts.join("; ")
        );
        if self.samples.is_empty() {
            self.samples.push(json!("<no non-trivial sample recorded>"));
        }
        let mut coverage = json!({
            "evaluations": self.evals,
            "distinct_nontrivial": self.nontrivial.len(),
            "rule": rule,
            "samples": self.samples,
            "labels": labels,
            "nontrivial_by_class": self.sample_labels,
            "exhaustive": !self.exhaustive_parts.is_empty() && self.random_parts.is_empty(),
            "exhaustive_parts": self.exhaustive_parts,
            "random_parts": self.random_parts,
            "known_finding_hits": self.known_hits,
            "known_finding_samples": self.known_samples,
        });
        for (k, v) in &self.extra {
            coverage[k] = v.clone();
        }
        let ev = json!({
            "property_id": self.args.prop,
            "engine": format!("{}-{}", self.args.engine, self.args.mode),
            "tier": if self.args.tier == Tier::Quick {"quick"} else {"thorough"},
            "seed": self.args.seed as i64,
            "level": "exploration",
            "coverage": coverage,
            "assumptions": self.assumptions,
            "wall_s": wall,
            "violations": self.violation_count,
            "violation_samples": replay_paths.iter().map(|(p,c,m,case)| json!({"replay":p,"check":c,"message":m,"case":case})).collect::<Vec<_>>(),
        });
        if let Some(dir) = self.args.out.parent() {
            let _ = std::fs::create_dir_all(dir);
        }
        std::fs::write(&self.args.out, serde_json::to_string_pretty(&ev).unwrap())
            .expect("write evidence partial");
        for k in &self.known {
            let hits = self.known_hits.get(&k.signature).copied().unwrap_or(0);
            println!(
                "KNOWN-FINDING: property={} {} (signature={}, hits this run={})",
                self.args.prop, k.text, k.signature, hits
            );
        }
        println!(
            "[{} {}-{}] evaluations={} distinct_nontrivial={} violations={} wall={:.1}s",
            self.args.prop,
            self.args.engine,
            self.args.mode,
            self.evals,
            self.nontrivial.len(),
            self.violation_count,
            wall
        );
        if self.violation_count > 0 {
            for (p, c, m, case) in &replay_paths {
                let cs = case.to_string();
                let cs = if cs.len() > 300 { format!("{}...", &cs[..300]) } else { cs };
                println!("  check={c}: {m}\n    case={cs}");
                println!("VIOLATION property={} replay={}", self.args.prop, p);
            }
            1
        } else {
            0
        }
    }
}

pub fn load_known(prop: &str) -> Vec<KnownFinding> {
    let path = format!("{}/known_findings.txt", verif_dir());
    let Ok(text) = std::fs::read_to_string(path) else {
        return Vec::new();
    };
    let mut out = Vec::new();
    for line in text.lines() {
        let line = line.trim();
        let Some(rest) = line.strip_prefix("known:") else {
            continue;
        };
        let rest = rest.trim();
        let mut p = None;
        let mut sig = None;
        let mut words = Vec::new();
        for w in rest.split_whitespace() {
            if let Some(v) = w.strip_prefix("property=") {
                p = Some(v.to_string());
            } else if let Some(v) = w.strip_prefix("signature=") {
                sig = Some(v.to_string());
            } else {
                words.push(w);
            }
        }
        if p.as_deref() == Some(prop) {
            if let Some(signature) = sig {
                out.push(KnownFinding {
                    signature,
                    text: words.join(" "),
                });
            }
        }
    }
    out
}

/// Loads a replay file and returns (check, case).
pub fn load_replay(path: &std::path::Path) -> (String, Value) {
    let text = std::fs::read_to_string(path).unwrap_or_else(|e| {
        eprintln!("cannot read replay {path:?}: {e}");
        std::process::exit(2);
    });
    let v: Value = serde_json::from_str(&text).unwrap_or_else(|e| {
        eprintln!("cannot parse replay {path:?}: {e}");
        std::process::exit(2);
    });
    (
        v["check"].as_str().unwrap_or("").to_string(),
        v["case"].clone(),
    )
}

/// Tiny deterministic PRNG (splitmix64) for places where a proptest strategy is overkill
/// (e.g. picking histories for already-enumerated inputs).  Seeded from VERIF_SEED only.
#[derive(Clone)]
pub struct Rng(pub u64);
impl Rng {
    pub fn new(seed: u64, stream: &str) -> Rng {
        Rng(seed ^ hash_of(stream))
    }
    pub fn next(&mut self) -> u64 {
        self.0 = self.0.wrapping_add(0x9E3779B97F4A7C15);
        let mut z = self.0;
        z = (z ^ (z >> 30)).wrapping_mul(0xBF58476D1CE4E5B9);
        z = (z ^ (z >> 27)).wrapping_mul(0x94D049BB133111EB);
        z ^ (z >> 31)
    }
    pub fn below(&mut self, n: u64) -> u64 {
        if n == 0 {
            0
        } else {
            self.next() % n
        }
    }
    pub fn pick<'a, T>(&mut self, xs: &'a [T]) -> &'a T {
        &xs[self.below(xs.len() as u64) as usize]
    }
    pub fn bool(&mut self) -> bool {
        self.next() & 1 == 1
    }
}

pub fn ostep<I: DoubleEndedIterator>(it: &mut I, back: bool) -> Option<I::Item> {
    if back {
        it.next_back()
    } else {
        it.next()
    }
}

//! C06 — string split iterators yield exactly the pieces std's split family yields.
use konst::string as kstr;
use kvh::{gen, ostep, Ctx};
use proptest::prelude::*;
use serde::{Deserialize, Serialize};
use serde_json::json;

include!("../kiter.rs");
impl_kiter!(['a, 'p, P: kstr::Pattern<'p>] kstr::Split<'a, 'p, P>, &'a str);
impl_kiter!(['a, 'p, P: kstr::Pattern<'p>] kstr::RSplit<'a, 'p, P>, &'a str);

const RULE: &str = "cases = (string, delimiter as &str or char, history); oracle = str::split / rsplit / split_terminator (rsplit_terminator = std rsplit without a final empty piece), pieces compared by address+length at every step, iterators run 2 steps past exhaustion; remainder() after every step = the not-yet-split part of the input (from the start of the next piece to the end of the input for forward iteration, up to the end of the next piece for reverse iteration, the span of the remaining pieces under mixed histories, \"\" when exhausted); split().rev() vs rsplit and rsplit().rev() vs split; for char delimiters (double-ended in std) every front/back interleaving of split and rsplit; non-trivial = >= 2 pieces and (an empty piece, i.e. adjacent/leading/trailing delimiters, or a self-overlapping delimiter occurrence, or the empty delimiter over multi-byte text); distinct by (string,delimiter,history)";

#[derive(Serialize, Deserialize, Debug, Clone, Hash)]
pub struct Case {
    s: String,
    delim: String,
    /// use the `char` pattern kind (delim must be exactly one char)
    as_char: bool,
    /// None: single-direction runs of all four iterators (+rev); Some(h): mixed history on split/rsplit (char only)
    hist: Option<u32>,
}

macro_rules! ensure {
    ($c:expr, $($fmt:tt)*) => { if !$c { return Err(format!($($fmt)*)); } };
}

fn same(a: &str, b: &str) -> bool {
    a.len() == b.len() && (a.is_empty() || a.as_ptr() == b.as_ptr())
}
fn d(x: &str, base: &str) -> String {
    if x.is_empty() {
        return "\"\"".into();
    }
    let off = (x.as_ptr() as usize).wrapping_sub(base.as_ptr() as usize);
    format!("{:?}@{}", x, off as isize)
}
fn dopt(x: Option<&str>, base: &str) -> String {
    x.map(|x| d(x, base)).unwrap_or("None".into())
}
fn same_opt(a: Option<&str>, b: Option<&str>) -> bool {
    match (a, b) {
        (None, None) => true,
        (Some(a), Some(b)) => same(a, b),
        _ => false,
    }
}

/// span from the start of the first remaining piece to the end of the last one
fn span_of<'a>(s: &'a str, rest: &[&'a str]) -> &'a str {
    match (rest.first(), rest.last()) {
        (Some(f), Some(l)) => {
            let base = s.as_ptr() as usize;
            let lo = (f.as_ptr() as usize - base).min(l.as_ptr() as usize - base);
            let hi = (f.as_ptr() as usize - base + f.len()).max(l.as_ptr() as usize - base + l.len());
            &s[lo..hi]
        }
        _ => "",
    }
}

/// the not-yet-split part of `s` when `rest` are the pieces still to come and the iterator consumes
/// from the front (`from_back == false`: everything from the start of the next piece to the end of
/// the input) or from the back (everything up to the end of the next piece); "" when exhausted
fn unsplit<'a>(s: &'a str, rest: &[&'a str], from_back: bool) -> &'a str {
    match rest.first() {
        None => "",
        Some(p) => {
            let off = p.as_ptr() as usize - s.as_ptr() as usize;
            if from_back {
                &s[..off + p.len()]
            } else {
                &s[off..]
            }
        }
    }
}

/// single-direction comparison of a konst iterator (stepped through `step`) against a piece list
fn run_pieces<'a, K>(
    what: &str,
    s: &'a str,
    from_back: bool,
    mut k: K,
    step: impl Fn(&mut K) -> Option<&'a str>,
    rem: impl Fn(&K) -> &'a str,
    pieces: &[&'a str],
) -> Result<(), String> {
    let r = rem(&k);
    let want = unsplit(s, pieces, from_back);
    ensure!(same(r, want), "{what}: remainder() before any step {} expected {}", d(r, s), d(want, s));
    for i in 0..pieces.len() + 2 {
        let kv = step(&mut k);
        let ov = pieces.get(i).copied();
        ensure!(same_opt(kv, ov), "{what}: step {i}: konst {} std {} (std pieces {:?})", dopt(kv, s), dopt(ov, s), pieces);
        let want = unsplit(s, &pieces[(i + 1).min(pieces.len())..], from_back);
        let r = rem(&k);
        ensure!(same(r, want), "{what}: remainder() after step {i}: konst {} expected {}", d(r, s), d(want, s));
    }
    Ok(())
}

fn st_next<'a, 'p, P: kstr::Pattern<'p>>(k: &mut kstr::SplitTerminator<'a, 'p, P>) -> Option<&'a str> {
    match k.copy().next() {
        Some((x, n)) => {
            *k = n;
            Some(x)
        }
        None => None,
    }
}
fn rst_next<'a, 'p, P: kstr::Pattern<'p>>(k: &mut kstr::RSplitTerminator<'a, 'p, P>) -> Option<&'a str> {
    match k.copy().next() {
        Some((x, n)) => {
            *k = n;
            Some(x)
        }
        None => None,
    }
}

macro_rules! single_direction {
    ($s:expr, $pat:expr, $kind:literal) => {{
        let s: &str = $s;
        let sp: Vec<&str> = s.split($pat).collect();
        let rsp: Vec<&str> = s.rsplit($pat).collect();
        let st: Vec<&str> = s.split_terminator($pat).collect();
        let mut rst = rsp.clone();
        if rst.last() == Some(&"") {
            rst.pop();
        }
        run_pieces(concat!("split[", $kind, "]"), s, false, kstr::split(s, $pat), |k| k.step(false), |k| k.remainder(), &sp)?;
        run_pieces(concat!("rsplit[", $kind, "]"), s, true, kstr::rsplit(s, $pat), |k| k.step(false), |k| k.remainder(), &rsp)?;
        run_pieces(concat!("split_terminator[", $kind, "]"), s, false, kstr::split_terminator(s, $pat), st_next, |k| k.remainder(), &st)?;
        run_pieces(concat!("rsplit_terminator[", $kind, "]"), s, true, kstr::rsplit_terminator(s, $pat), rst_next, |k| k.remainder(), &rst)?;
        // reversing swaps the family
        run_pieces(concat!("split[", $kind, "].rev()"), s, true, kstr::split(s, $pat).rev(), |k| k.step(false), |k| k.remainder(), &rsp)?;
        run_pieces(concat!("rsplit[", $kind, "].rev()"), s, false, kstr::rsplit(s, $pat).rev(), |k| k.step(false), |k| k.remainder(), &sp)?;
        run_pieces(concat!("split[", $kind, "].rev().rev()"), s, false, kstr::split(s, $pat).rev().rev(), |k| k.step(false), |k| k.remainder(), &sp)?;
        // next_back on the forward type = the r-family
        run_pieces(concat!("split[", $kind, "] via next_back"), s, true, kstr::split(s, $pat), |k| k.step(true), |k| k.remainder(), &rsp)?;
        run_pieces(concat!("rsplit[", $kind, "] via next_back"), s, false, kstr::rsplit(s, $pat), |k| k.step(true), |k| k.remainder(), &sp)?;
    }};
}

fn mixed(s: &str, c: char, hist: u32) -> Result<(), String> {
    let n = s.split(c).count() as u32 + 2;
    // split
    let mut k = kstr::split(s, c);
    let mut o = s.split(c);
    let mut kr = kstr::rsplit(s, c);
    let mut or = s.rsplit(c);
    for i in 0..n {
        let back = (hist >> i) & 1 == 1;
        let mut cp = k.copy();
        let _ = cp.step(!back);
        let (kv, ov) = (k.step(back), ostep(&mut o, back));
        ensure!(same_opt(kv, ov), "split({s:?},{c:?}) step {i} back={back}: konst {} std {}", dopt(kv, s), dopt(ov, s));
        let rest: Vec<&str> = o.clone().collect();
        let want = span_of(s, &rest);
        ensure!(same(k.remainder(), want), "split({s:?},{c:?}).remainder() after step {i}: konst {} expected {}", d(k.remainder(), s), d(want, s));
        let (kv, ov) = (kr.step(back), ostep(&mut or, back));
        ensure!(same_opt(kv, ov), "rsplit({s:?},{c:?}) step {i} back={back}: konst {} std {}", dopt(kv, s), dopt(ov, s));
        let rest: Vec<&str> = or.clone().collect();
        let want = span_of(s, &rest);
        ensure!(same(kr.remainder(), want), "rsplit({s:?},{c:?}).remainder() after step {i}: konst {} expected {}", d(kr.remainder(), s), d(want, s));
    }
    Ok(())
}

/// mixed front/back histories for a `&str` delimiter.  std's `Split<&str>` is not double-ended (forward and reverse
/// searches can decompose a string differently when occurrences overlap), so the model is a deque of std's pieces and
/// applies only when both directions give the same decomposition - which includes the empty delimiter.  After every
/// step the reversed copy of the iterator must yield the rest of the deque from the other end.
fn mixed_str(s: &str, dl: &str, hist: u32) -> Result<(), String> {
    use std::collections::VecDeque;
    let fwd: Vec<&str> = s.split(dl).collect();
    let mut rv: Vec<&str> = s.rsplit(dl).collect();
    rv.reverse();
    if fwd.len() != rv.len() || fwd.iter().zip(&rv).any(|(a, b)| a.len() != b.len() || a.as_ptr() != b.as_ptr()) {
        return Ok(());
    }
    let n = fwd.len() as u32 + 2;
    let mut dq: VecDeque<&str> = fwd.iter().copied().collect();
    let mut dqr = dq.clone();
    let mut k = kstr::split(s, dl);
    let mut kr = kstr::rsplit(s, dl);
    for i in 0..n {
        let back = (hist >> i) & 1 == 1;
        let (kv, ov) = (k.step(back), if back { dq.pop_back() } else { dq.pop_front() });
        ensure!(same_opt(kv, ov), "split({s:?},{dl:?}) history {hist:#b} step {i} back={back}: konst {} model {} (pieces {:?})", dopt(kv, s), dopt(ov, s), fwd);
        // rsplit's front is the deque's back
        let (kv, ov) = (kr.step(back), if back { dqr.pop_front() } else { dqr.pop_back() });
        ensure!(same_opt(kv, ov), "rsplit({s:?},{dl:?}) history {hist:#b} step {i} back={back}: konst {} model {} (pieces {:?})", dopt(kv, s), dopt(ov, s), fwd);
        // reversing what is left yields the remaining pieces from the other end
        let mut r = k.copy().rev();
        let mut left: Vec<&str> = dq.iter().rev().copied().collect();
        left.truncate(3);
        for (j, want) in left.iter().enumerate() {
            let got = r.step(false);
            ensure!(same_opt(got, Some(want)), "split({s:?},{dl:?}) history {hist:#b}: after step {i}, rev() item {j}: konst {} model {} (pieces {:?})", dopt(got, s), d(want, s), fwd);
        }
        if dq.is_empty() {
            let got = k.copy().rev().step(false);
            ensure!(got.is_none(), "split({s:?},{dl:?}) history {hist:#b}: after step {i} rev() of the exhausted iterator yields {}", dopt(got, s));
        }
    }
    Ok(())
}

pub fn run_case(c: &Case) -> Result<(), String> {
    let s = c.s.as_str();
    if c.as_char {
        let ch = c.delim.chars().next().ok_or("as_char needs a char")?;
        match c.hist {
            None => single_direction!(s, ch, "char"),
            Some(h) => mixed(s, ch, h)?,
        }
    } else {
        let dl = c.delim.as_str();
        match c.hist {
            None => single_direction!(s, dl, "&str"),
            Some(h) => mixed_str(s, dl, h)?,
        }
    }
    Ok(())
}

fn classify(ctx: &mut Ctx, c: &Case) {
    let s = c.s.as_str();
    let dl = c.delim.as_str();
    let pieces: Vec<&str> = s.split(dl).collect();
    let mut nt = false;
    if dl.is_empty() {
        ctx.label("empty_delimiter");
        nt = !s.is_ascii() && pieces.len() >= 2;
    } else if pieces.len() >= 2 {
        if pieces.iter().any(|p| p.is_empty()) {
            ctx.label("adjacent_leading_or_trailing_delimiter");
            nt = true;
        }
        // overlapping occurrences: forward and backward decompositions differ
        let mut r: Vec<&str> = s.rsplit(dl).collect();
        r.reverse();
        if r != pieces {
            ctx.label("overlapping_delimiter_occurrences");
            nt = true;
        }
    } else {
        ctx.label("delimiter_absent");
    }
    if let Some(h) = c.hist {
        let n = pieces.len() as u32 + 2;
        let mask = (1u32 << n) - 1;
        if h & mask != 0 && h & mask != mask {
            ctx.label("history_mixed_ends");
        } else {
            nt = false;
        }
    }
    if nt {
        ctx.nontrivial(if c.hist.is_some() { "mixed_history" } else if c.as_char { "char_delim" } else { "str_delim" }, c, || json!(c));
    }
}

fn eval(ctx: &mut Ctx, c: Case) {
    ctx.case("split", &c, |ctx| {
        classify(ctx, &c);
        run_case(&c)
    });
}

fn explore(ctx: &mut Ctx) {
    let alpha = ["a", "b", "é"];
    let ls = ctx.by_tier(7, 8);
    let strs = gen::strings(&alpha, ls);
    let delims = gen::strings(&alpha, 3);
    for s in &strs {
        for dl in &delims {
            eval(ctx, Case { s: s.clone(), delim: dl.clone(), as_char: false, hist: None });
        }
        for ch in ["a", "b", "é", "z"] {
            eval(ctx, Case { s: s.clone(), delim: ch.into(), as_char: true, hist: None });
        }
        if ctx.too_many() {
            return;
        }
    }
    ctx.exhaustive_part(&format!("all strings of 0..={ls} chars over {{a,b,é}} x (all &str delimiters of 0..=3 chars over the same alphabet + char delimiters a,b,é,z), all four iterators run to exhaustion, rev() forms"));
    // mixed histories, char delimiters
    let lm = ctx.by_tier(6, 8);
    for s in gen::strings(&alpha, lm) {
        for ch in ["a", "é"] {
            let n = s.split(ch).count() as u32 + 2;
            for h in 0..(1u32 << n) {
                eval(ctx, Case { s: s.clone(), delim: ch.into(), as_char: true, hist: Some(h) });
            }
        }
        if ctx.too_many() {
            return;
        }
    }
    ctx.exhaustive_part(&format!("all strings of 0..={lm} chars over {{a,b,é}} x char delimiters {{a,é}} x all 2^(pieces+2) front/back histories of split and rsplit"));
    // mixed histories, &str delimiters whose forward and reverse decompositions agree (the empty delimiter included)
    let lms = ctx.by_tier(4, 6);
    for s in gen::strings(&alpha, lms) {
        for dl in ["", "a", "é", "ab", "éa", "aé"] {
            let n = (s.split(dl).count() as u32 + 2).min(10);
            for h in 0..(1u32 << n) {
                eval(ctx, Case { s: s.clone(), delim: dl.into(), as_char: false, hist: Some(h) });
            }
        }
        if ctx.too_many() {
            return;
        }
    }
    ctx.exhaustive_part(&format!("all strings of 0..={lms} chars over {{a,b,é}} x &str delimiters {{\"\", a, é, ab, éa, aé}} (when split and rsplit decompose the string alike) x all 2^(pieces+2) front/back histories of split and rsplit against a deque of std's pieces, rev() of the rest after every step"));
    // wider text alphabet, delimiters with shared lead bytes
    let wide = ["é", "è", "漢", "😀", ","];
    for s in gen::strings(&wide, ctx.by_tier(4, 5)) {
        for dl in ["", ",", "é", "è", "éè", ",,", "漢", "😀"] {
            eval(ctx, Case { s: s.clone(), delim: dl.into(), as_char: false, hist: None });
            if dl.chars().count() == 1 {
                eval(ctx, Case { s: s.clone(), delim: dl.into(), as_char: true, hist: None });
            }
        }
    }
    ctx.exhaustive_part("all strings up to 4-5 chars over {é,è,漢,😀,','} x 8 delimiters (incl. empty, 2-char, shared lead bytes)");
    // encoding-length boundary scalars (first/last char of every UTF-8 length, both sides of the surrogate gap):
    // the empty delimiter walks char by char, char delimiters are matched by their encoding
    let bs: Vec<String> = gen::BOUNDARY_CHARS.iter().chain(['a', '\u{e000}', '\u{fff}', '\u{1000}'].iter()).map(|c| c.to_string()).collect();
    let bsr: Vec<&str> = bs.iter().map(|x| x.as_str()).collect();
    for s in gen::strings(&bsr, ctx.by_tier(3, 4)) {
        eval(ctx, Case { s: s.clone(), delim: String::new(), as_char: false, hist: None });
        for dl in ["a", "\u{800}", "\u{7ff}", "\u{ffff}", "\u{10000}"] {
            eval(ctx, Case { s: s.clone(), delim: dl.into(), as_char: false, hist: None });
            eval(ctx, Case { s: s.clone(), delim: dl.into(), as_char: true, hist: None });
        }
        if ctx.too_many() {
            return;
        }
    }
    ctx.exhaustive_part("all strings up to 3-4 chars over 13 encoding-boundary scalars (U+0000, 7F, 80, 7FF, 800, FFF, 1000, D7FF, E000, FFFF, 10000, 10FFFF, 'a') x {empty delimiter, 5 delimiters as &str and as char}");
    // chars whose encodings differ in exactly one byte position, as text and as delimiter
    for (set, strs) in gen::one_byte_partner_strings(ctx.by_tier(3, 4)) {
        for s in &strs {
            for c in &set {
                eval(ctx, Case { s: s.clone(), delim: c.to_string(), as_char: false, hist: None });
                eval(ctx, Case { s: s.clone(), delim: c.to_string(), as_char: true, hist: None });
                eval(ctx, Case { s: s.clone(), delim: c.to_string(), as_char: true, hist: Some(0b0110) });
            }
        }
    }
    ctx.exhaustive_part("one-byte partners: strings of <= 3-4 chars over {c, one partner per byte position, 'a'} for c in {é, 个, 😀} x every member as &str and char delimiter");
    // &str delimiters of up to 3 chars over alphabets whose chars share their lead byte (a mismatch in the middle of a
    // char next to a self-overlapping delimiter)
    for alpha in [["é", "è", "a"], ["个", "丫", "ñ"], ["😀", "😁", "é"]] {
        let strs = gen::strings(&alpha, ctx.by_tier(5, 6));
        let delims = gen::strings(&alpha, 3);
        for s in &strs {
            for dl in &delims {
                eval(ctx, Case { s: s.clone(), delim: dl.clone(), as_char: false, hist: None });
            }
        }
        if ctx.too_many() {
            return;
        }
    }
    ctx.exhaustive_part("all strings of <= 5-6 chars x all &str delimiters of <= 3 chars over {é,è,a}, {个,丫,ñ}, {😀,😁,é} (chars sharing lead bytes)");
    for s in gen::special_char_strings() {
        let sp = s.chars().find(|c| !c.is_ascii() || *c == '\u{7f}' || *c == '\u{1b}').unwrap_or(',').to_string();
        for dl in ["", ",", " ", sp.as_str()] {
            eval(ctx, Case { s: s.clone(), delim: dl.into(), as_char: false, hist: None });
            if dl.chars().count() == 1 {
                eval(ctx, Case { s: s.clone(), delim: dl.into(), as_char: true, hist: None });
                eval(ctx, Case { s: s.clone(), delim: dl.into(), as_char: true, hist: Some(0b0101) });
            }
        }
    }
    ctx.exhaustive_part("16 special chars (BOM, U+FFFD, Unicode white space ...) in 6 contexts x {empty, ',', ' ', the char itself} as delimiter");
    // long periodic delimiters: delimiter = U U c with U = a b^k; the text contains U U U c (the delimiter overlapping a
    // long partial match of itself) between ordinary pieces
    for k in (0..=70usize).chain([100, 127, 128, 129, 200]) {
        let unit = format!("a{}", "b".repeat(k));
        let delim = format!("{unit}{unit}c");
        let text = format!("x{unit}{unit}{unit}cy{delim}{unit}z{delim}");
        eval(ctx, Case { s: text.clone(), delim: delim.clone(), as_char: false, hist: None });
        let delim2 = format!("{unit}ac");
        let text2 = format!("{unit}{unit}ac-{unit}{delim2}");
        eval(ctx, Case { s: text2, delim: delim2, as_char: false, hist: None });
    }
    ctx.exhaustive_part("long periodic delimiters (a b^k)^2 c and (a b^k) a c for k in 0..=70 and 5 larger values, in texts where the delimiter overlaps a long partial match of itself");
    // lead-byte sweep: empty delimiter (char by char), the char itself and an ASCII char as delimiter
    for s in gen::lead_byte_strings() {
        eval(ctx, Case { s: s.clone(), delim: String::new(), as_char: false, hist: None });
        let first = s.chars().find(|c| !c.is_ascii()).unwrap_or('a').to_string();
        for dl in [first.as_str(), "a", "é"] {
            eval(ctx, Case { s: s.clone(), delim: dl.into(), as_char: false, hist: None });
            eval(ctx, Case { s: s.clone(), delim: dl.into(), as_char: true, hist: None });
            for h in [0u32, 0b10101, 0b01010, u32::MAX] {
                eval(ctx, Case { s: s.clone(), delim: dl.into(), as_char: true, hist: Some(h) });
            }
        }
    }
    ctx.exhaustive_part("lead-byte sweep: first / last scalar of each of the 51 UTF-8 lead bytes x 8 short contexts x {empty delimiter, the char itself, 'a', 'é'} as &str and char, 4 mixed histories");
    let n = ctx.by_tier(60_000, 1_500_000);
    let strat = (proptest::collection::vec(0usize..4, 0..40), proptest::collection::vec(0usize..4, 0..4), any::<bool>(), proptest::option::of(any::<u32>()));
    ctx.prop("split", n, strat, |ctx, v| {
        let c = fold_case(v);
        ctx.label("random");
        classify(ctx, &c);
        run_case(&c)
    });
}

pub fn fold_case((s, dl, as_char, hist): &(Vec<usize>, Vec<usize>, bool, Option<u32>)) -> Case {
    const SYM: [&str; 4] = ["a", "b", "é", ","];
    let s: String = s.iter().map(|&i| SYM[i]).collect();
    let mut delim: String = dl.iter().map(|&i| SYM[i]).collect();
    let one = delim.chars().count() == 1;
    let as_char = *as_char && one;
    let mut hist = if as_char { *hist } else { None };
    if hist.is_some() && s.split(delim.as_str()).count() > 28 {
        hist = None;
    }
    if as_char && !one {
        delim = ",".into();
    }
    Case { s, delim, as_char, hist }
}

fn main() {
    kvh::on_thread(real_main);
}

fn real_main() {
    let args = kvh::parse_args("C06", "c06");
    let mut ctx = Ctx::new(args.clone(), RULE);
    if let Some(p) = &args.replay {
        let (_check, case) = kvh::load_replay(p);
        let c: Case = match serde_json::from_value::<Case>(case.clone()) {
            Ok(c) => c,
            Err(_) => fold_case(&serde_json::from_value(case).expect("replay case")),
        };
        println!("replaying {:?}", c);
        ctx.case("split", &c, |_| run_case(&c));
    } else {
        explore(&mut ctx);
    }
    std::process::exit(ctx.finish());
}

//! C01 — safe API never triggers UB; results stay inside the input and are valid UTF-8.
//! Native mode: post-conditions (sub-range, UTF-8, char boundaries, no unexpected panic) on every
//! returned slice / str of a table of safe public items, over generated inputs.
//! `--mode miri`: the same table on a compact deterministic corpus, run under `cargo miri run` so that
//! out-of-bounds pointer arithmetic, uninitialised reads and invalid values are hard errors.
use konst::{chr, ffi::cstr as kc, slice as ks, string as kstr, Parser};
use kvh::{catch, gen, Ctx};
use proptest::prelude::*;
use serde::{Deserialize, Serialize};
use serde_json::json;

const RULE: &str = "cases = (function group, input bytes / constructed UTF-8 string / element type and length, indices from the edge index set incl. usize::MAX, pattern of each kind); oracle = post-conditions only: every non-empty returned &[T]/&mut [T]/&str lies inside the argument's address range (for ZSTs: len <= arg len), every returned &str is valid UTF-8 and starts/ends on char boundaries of the argument, every returned char is a Unicode scalar value, and the only panics are the documented ones (clamping str functions on an in-range non-boundary index; chunk size 0); under Miri the same calls are additionally checked for UB; non-trivial = index within 1 of len, beyond len or >= isize::MAX, or a multi-byte char adjacent to the cut, or a ZST / Drop element type; distinct by the whole case";

#[derive(Serialize, Deserialize, Debug, Clone, Hash)]
pub enum Case {
    /// generic slice functions; elem 0 u8, 1 u64, 2 (), 3 String, 4 [u8;3]
    Slice { elem: u8, len: usize, a: usize, b: usize },
    /// byte-pattern functions on arbitrary bytes
    Bytes { hay: Vec<u8>, pat: Vec<u8> },
    /// str functions on constructed UTF-8
    Str { s: String, pat: String, a: usize, b: usize },
    /// iterators over a string / slice (items + remainder / as_str)
    Iter { s: String, pat: String, hist: u32 },
    Chars { lo: u32 },
    /// Parser walk: ops encoded as small ints
    Parser { s: String, ops: Vec<u8> },
    CStr { bytes: Vec<u8> },
    Misc { n: usize },
}

macro_rules! ensure {
    ($c:expr, $($fmt:tt)*) => { if !$c { return Err(format!($($fmt)*)); } };
}

fn inside<T>(what: &str, ret: &[T], base_ptr: *const T, base_len: usize) -> Result<(), String> {
    if ret.is_empty() {
        return Ok(());
    }
    let sz = std::mem::size_of::<T>();
    if sz == 0 {
        ensure!(ret.len() <= base_len, "{what}: returned {} ZST elements from a slice of {}", ret.len(), base_len);
        return Ok(());
    }
    let (lo, hi) = (base_ptr as usize, base_ptr as usize + base_len * sz);
    let (rl, rh) = (ret.as_ptr() as usize, ret.as_ptr() as usize + ret.len() * sz);
    ensure!(lo <= rl && rh <= hi && (rl - lo) % sz == 0, "{what}: returned slice [{:#x}..{:#x}) is outside the argument [{:#x}..{:#x})", rl, rh, lo, hi);
    Ok(())
}
fn inside_str(what: &str, ret: &str, base: &str) -> Result<(), String> {
    ensure!(std::str::from_utf8(ret.as_bytes()).is_ok(), "{what}: returned str is not valid UTF-8: {:?}", ret.as_bytes());
    if ret.is_empty() {
        return Ok(());
    }
    inside(what, ret.as_bytes(), base.as_ptr(), base.len())?;
    let off = ret.as_ptr() as usize - base.as_ptr() as usize;
    ensure!(base.is_char_boundary(off) && base.is_char_boundary(off + ret.len()), "{what}: returned str {}..{} is not on char boundaries of {base:?}", off, off + ret.len());
    Ok(())
}

trait El: Clone + 'static {
    fn make(i: usize) -> Self;
}
impl El for u8 {
    fn make(i: usize) -> u8 {
        i as u8
    }
}
impl El for u64 {
    fn make(i: usize) -> u64 {
        i as u64 * 3
    }
}
impl El for () {
    fn make(_: usize) {}
}
impl El for String {
    fn make(i: usize) -> String {
        format!("e{i}")
    }
}
impl El for [u8; 3] {
    fn make(i: usize) -> [u8; 3] {
        [i as u8; 3]
    }
}

fn slice_fns<T: El>(len: usize, a: usize, b: usize) -> Result<(), String> {
    let v: Vec<T> = (0..len).map(T::make).collect();
    let s: &[T] = &v;
    let (p, n) = (s.as_ptr(), s.len());
    inside("slice_from", ks::slice_from(s, a), p, n)?;
    inside("slice_up_to", ks::slice_up_to(s, a), p, n)?;
    inside("slice_range", ks::slice_range(s, a, b), p, n)?;
    if let Some(r) = ks::get_from(s, a) {
        inside("get_from", r, p, n)?;
    }
    if let Some(r) = ks::get_up_to(s, a) {
        inside("get_up_to", r, p, n)?;
    }
    if let Some(r) = ks::get_range(s, a, b) {
        inside("get_range", r, p, n)?;
    }
    let (l, r) = ks::split_at(s, a);
    inside("split_at.0", l, p, n)?;
    inside("split_at.1", r, p, n)?;
    ensure!(l.len() + r.len() == n, "split_at({a}): parts have {} + {} elements of {n}", l.len(), r.len());
    if let Some(r) = ks::get(s, a) {
        inside("get", std::slice::from_ref(r), p, n)?;
    }
    // iterators: every item inside
    let size = (b % 5) + 1;
    macro_rules! items {
        ($name:literal, $it:expr) => {{
            let mut it = $it;
            let mut guard = 0;
            while let Some((x, next)) = it.copy().next() {
                inside($name, x, p, n)?;
                it = next;
                guard += 1;
                ensure!(guard <= n + 2, "{}: iterator does not terminate", $name);
            }
            let mut it = $it;
            let mut guard = 0;
            while let Some((x, next)) = it.copy().next_back() {
                inside(concat!($name, " (back)"), x, p, n)?;
                it = next;
                guard += 1;
                ensure!(guard <= n + 2, "{}: iterator does not terminate", $name);
            }
        }};
    }
    items!("windows", ks::windows(s, size));
    items!("chunks", ks::chunks(s, size));
    items!("rchunks", ks::rchunks(s, size));
    items!("chunks_exact", ks::chunks_exact(s, size));
    items!("rchunks_exact", ks::rchunks_exact(s, size));
    inside("chunks_exact.remainder", ks::chunks_exact(s, size).remainder(), p, n)?;
    inside("rchunks_exact.remainder", ks::rchunks_exact(s, size).remainder(), p, n)?;
    {
        let mut it = ks::iter(s);
        while let Some((x, next)) = it.copy().next() {
            inside("iter", std::slice::from_ref(x), p, n)?;
            inside("iter.as_slice", next.as_slice(), p, n)?;
            it = next;
        }
    }
    macro_rules! arrs {
        ($($k:literal),*) => {$(
            if let Ok(r) = ks::try_into_array::<T, $k>(s) { inside("try_into_array", &r[..], p, n)?; }
            if $k > 0 {
                let (c, r) = ks::as_chunks::<T, $k>(s);
                inside("as_chunks.rem", r, p, n)?;
                ensure!(c.len() * $k + r.len() == n, "as_chunks::<{}>: {} chunks + {} rem of {n}", $k, c.len(), r.len());
                if let Some(f) = c.first() { inside("as_chunks.0[0]", &f[..], p, n)?; }
                if let Some(f) = c.last() { inside("as_chunks.0[last]", &f[..], p, n)?; }
                let (r, c) = ks::as_rchunks::<T, $k>(s);
                inside("as_rchunks.rem", r, p, n)?;
                if let Some(f) = c.first() { inside("as_rchunks.1[0]", &f[..], p, n)?; }
                if let Some(f) = c.last() { inside("as_rchunks.1[last]", &f[..], p, n)?; }
                let mut it = ks::array_chunks::<T, $k>(s);
                while let Some((x, next)) = it.copy().next() { inside("array_chunks", &x[..], p, n)?; it = next; }
                inside("array_chunks.remainder", ks::array_chunks::<T, $k>(s).remainder(), p, n)?;
            }
        )*};
    }
    arrs!(0, 1, 2, 3, 4);
    // _mut variants: capture the range first
    let mut m: Vec<T> = (0..len).map(T::make).collect();
    let (p, n) = (m.as_ptr(), m.len());
    inside("slice_from_mut", ks::slice_from_mut(&mut m, a), p, n)?;
    inside("slice_up_to_mut", ks::slice_up_to_mut(&mut m, a), p, n)?;
    inside("slice_range_mut", ks::slice_range_mut(&mut m, a, b), p, n)?;
    if let Some(r) = ks::get_from_mut(&mut m, a) {
        inside("get_from_mut", r, p, n)?;
    }
    if let Some(r) = ks::get_up_to_mut(&mut m, a) {
        inside("get_up_to_mut", r, p, n)?;
    }
    if let Some(r) = ks::get_range_mut(&mut m, a, b) {
        inside("get_range_mut", r, p, n)?;
    }
    {
        let (l, r) = ks::split_at_mut(&mut m, a);
        inside("split_at_mut.0", l, p, n)?;
        inside("split_at_mut.1", r, p, n)?;
        ensure!(l.len() + r.len() == n, "split_at_mut({a}) parts {} + {} of {n}", l.len(), r.len());
        // the two halves must not overlap: write through both (Miri checks aliasing)
        if let Some(x) = l.first_mut() {
            *x = T::make(77);
        }
        if let Some(x) = r.first_mut() {
            *x = T::make(78);
        }
    }
    if let Some(r) = ks::get_mut(&mut m, a) {
        *r = T::make(1);
    }
    if let Some(r) = ks::first_mut(&mut m) {
        *r = T::make(2);
    }
    if let Some(r) = ks::last_mut(&mut m) {
        *r = T::make(3);
    }
    if let Some((f, rest)) = ks::split_first_mut(&mut m) {
        *f = T::make(4);
        inside("split_first_mut.1", rest, p, n)?;
    }
    if let Some((l, rest)) = ks::split_last_mut(&mut m) {
        *l = T::make(5);
        inside("split_last_mut.1", rest, p, n)?;
    }
    if let Ok(r) = ks::try_into_array_mut::<T, 2>(&mut m) {
        r[1] = T::make(6);
    }
    Ok(())
}

macro_rules! bytes_kind {
    ($h:expr, $pat:expr) => {{
        let h: &[u8] = $h;
        let (p, n) = (h.as_ptr(), h.len());
        if let Some(i) = ks::bytes_find(h, $pat) {
            ensure!(i <= n, "bytes_find offset {i} > len {n}");
        }
        if let Some(i) = ks::bytes_rfind(h, $pat) {
            ensure!(i <= n, "bytes_rfind offset {i} > len {n}");
        }
        let _ = (ks::bytes_contain(h, $pat), ks::bytes_rcontain(h, $pat), ks::bytes_start_with(h, $pat), ks::bytes_end_with(h, $pat));
        for (name, r) in [
            ("bytes_strip_prefix", ks::bytes_strip_prefix(h, $pat)),
            ("bytes_strip_suffix", ks::bytes_strip_suffix(h, $pat)),
            ("bytes_find_skip", ks::bytes_find_skip(h, $pat)),
            ("bytes_find_keep", ks::bytes_find_keep(h, $pat)),
            ("bytes_rfind_skip", ks::bytes_rfind_skip(h, $pat)),
            ("bytes_rfind_keep", ks::bytes_rfind_keep(h, $pat)),
            ("bytes_trim_matches", Some(ks::bytes_trim_matches(h, $pat))),
            ("bytes_trim_start_matches", Some(ks::bytes_trim_start_matches(h, $pat))),
            ("bytes_trim_end_matches", Some(ks::bytes_trim_end_matches(h, $pat))),
        ] {
            if let Some(r) = r {
                inside(name, r, p, n)?;
            }
        }
    }};
}

fn bytes_fns(h: &[u8], pat: &[u8]) -> Result<(), String> {
    let (p, n) = (h.as_ptr(), h.len());
    inside("bytes_trim", ks::bytes_trim(h), p, n)?;
    inside("bytes_trim_start", ks::bytes_trim_start(h), p, n)?;
    inside("bytes_trim_end", ks::bytes_trim_end(h), p, n)?;
    bytes_kind!(h, pat);
    if let Ok(a) = <[u8; 2]>::try_from(pat) {
        bytes_kind!(h, &a);
    }
    if let Ok(a) = <[u8; 0]>::try_from(pat) {
        bytes_kind!(h, &a);
    }
    if let Ok(ps) = std::str::from_utf8(pat) {
        bytes_kind!(h, ps);
        if let (Some(c), 1) = (ps.chars().next(), ps.chars().count()) {
            bytes_kind!(h, &c);
        }
    }
    let r = kstr::from_utf8(h);
    ensure!(r.is_ok() == std::str::from_utf8(h).is_ok(), "string::from_utf8 validity differs from core");
    if let (Err(a), Err(b)) = (&r, std::str::from_utf8(h)) {
        ensure!(a.0 == b, "string::from_utf8 error {:?} differs from core's {:?}", a.0, b);
    }
    Ok(())
}

macro_rules! str_kind {
    ($s:expr, $pat:expr) => {{
        let s: &str = $s;
        if let Some(i) = kstr::find(s, $pat) {
            ensure!(s.is_char_boundary(i), "string::find offset {i} not a boundary");
        }
        if let Some(i) = kstr::rfind(s, $pat) {
            ensure!(i <= s.len(), "string::rfind offset {i} > len");
        }
        let _ = (kstr::contains(s, $pat), kstr::rcontains(s, $pat), kstr::starts_with(s, $pat), kstr::ends_with(s, $pat));
        for (name, r) in [
            ("strip_prefix", kstr::strip_prefix(s, $pat)),
            ("strip_suffix", kstr::strip_suffix(s, $pat)),
            ("find_skip", kstr::find_skip(s, $pat)),
            ("find_keep", kstr::find_keep(s, $pat)),
            ("rfind_skip", kstr::rfind_skip(s, $pat)),
            ("rfind_keep", kstr::rfind_keep(s, $pat)),
            ("trim_matches", Some(kstr::trim_matches(s, $pat))),
            ("trim_start_matches", Some(kstr::trim_start_matches(s, $pat))),
            ("trim_end_matches", Some(kstr::trim_end_matches(s, $pat))),
        ] {
            if let Some(r) = r {
                inside_str(name, r, s)?;
            }
        }
        for (name, r) in [("split_once", kstr::split_once(s, $pat)), ("rsplit_once", kstr::rsplit_once(s, $pat))] {
            if let Some((l, r)) = r {
                inside_str(name, l, s)?;
                inside_str(name, r, s)?;
            }
        }
    }};
}

fn str_fns(s: &str, pat: &str, a: usize, b: usize) -> Result<(), String> {
    let bad = |i: usize| i < s.len() && !s.is_char_boundary(i);
    for (name, r, must_panic) in [
        ("str_from", catch(|| kstr::str_from(s, a)), bad(a)),
        ("str_up_to", catch(|| kstr::str_up_to(s, a)), bad(a)),
        ("str_range", catch(|| kstr::str_range(s, a, b)), bad(a) || bad(b)),
    ] {
        match r {
            Ok(r) => {
                ensure!(!must_panic, "{name}({s:?},{a},{b}) returned {r:?} although an index is inside a char");
                inside_str(name, r, s)?;
            }
            Err(m) => ensure!(must_panic, "{name}({s:?},{a},{b}) panicked unexpectedly: {m}"),
        }
    }
    match catch(|| kstr::split_at(s, a)) {
        Ok((l, r)) => {
            ensure!(!bad(a), "split_at({s:?},{a}) did not panic inside a char");
            inside_str("split_at.0", l, s)?;
            inside_str("split_at.1", r, s)?;
        }
        Err(m) => ensure!(bad(a), "split_at({s:?},{a}) panicked unexpectedly: {m}"),
    }
    for (name, r) in [("get_from", kstr::get_from(s, a)), ("get_up_to", kstr::get_up_to(s, a)), ("get_range", kstr::get_range(s, a, b))] {
        if let Some(r) = r {
            inside_str(name, r, s)?;
        }
    }
    inside_str("trim", kstr::trim(s), s)?;
    inside_str("trim_start", kstr::trim_start(s), s)?;
    inside_str("trim_end", kstr::trim_end(s), s)?;
    str_kind!(s, pat);
    if let (Some(c), 1) = (pat.chars().next(), pat.chars().count()) {
        str_kind!(s, c);
    }
    Ok(())
}

fn iter_fns(s: &str, pat: &str, hist: u32) -> Result<(), String> {
    macro_rules! de {
        ($name:literal, $it:expr) => {{
            let mut it = $it;
            for i in 0..(s.len() as u32 + 3).min(24) {
                let c = it.copy();
                let r = if (hist >> i) & 1 == 1 { c.next_back() } else { c.next() };
                match r {
                    Some((x, next)) => {
                        inside_str($name, x, s)?;
                        it = next;
                        inside_str(concat!($name, ".remainder"), it.remainder(), s)?;
                    }
                    None => break,
                }
            }
        }};
    }
    macro_rules! fw {
        ($name:literal, $it:expr) => {{
            let mut it = $it;
            for _ in 0..s.len() + 3 {
                match it.copy().next() {
                    Some((x, next)) => {
                        inside_str($name, x, s)?;
                        it = next;
                        inside_str(concat!($name, ".remainder"), it.remainder(), s)?;
                    }
                    None => break,
                }
            }
        }};
    }
    de!("split", kstr::split(s, pat));
    de!("rsplit", kstr::rsplit(s, pat));
    fw!("split_terminator", kstr::split_terminator(s, pat));
    fw!("rsplit_terminator", kstr::rsplit_terminator(s, pat));
    if let (Some(c), 1) = (pat.chars().next(), pat.chars().count()) {
        de!("split[char]", kstr::split(s, c));
        fw!("split_terminator[char]", kstr::split_terminator(s, c));
        fw!("rsplit_terminator[char]", kstr::rsplit_terminator(s, c));
    }
    // chars / char_indices: every item a valid scalar; as_str inside
    let mut it = kstr::chars(s);
    let mut ci = kstr::char_indices(s);
    for i in 0..(s.len() as u32 + 2).min(24) {
        let back = (hist >> i) & 1 == 1;
        let c = it.copy();
        match if back { c.next_back() } else { c.next() } {
            Some((ch, next)) => {
                ensure!(char::from_u32(ch as u32) == Some(ch), "chars yielded an invalid char {:#x}", ch as u32);
                it = next;
                inside_str("chars.as_str", it.as_str(), s)?;
            }
            None => {}
        }
        let c = ci.copy();
        match if back { c.next_back() } else { c.next() } {
            Some(((off, ch), next)) => {
                ensure!(s.is_char_boundary(off) && s[off..].starts_with(ch), "char_indices yielded ({off},{ch:?}) which is not a char of {s:?}");
                ci = next;
                inside_str("char_indices.as_str", ci.as_str(), s)?;
            }
            None => {}
        }
    }
    Ok(())
}

fn chars_fns(lo: u32) -> Result<(), String> {
    for n in lo..lo.saturating_add(64) {
        let k = chr::from_u32(n);
        ensure!(k.is_some() == char::from_u32(n).is_some(), "from_u32({n:#x}) presence differs");
        if let Some(c) = k {
            ensure!(c as u32 == n, "from_u32({n:#x}) returned {:#x}", c as u32);
            let e = chr::encode_utf8(c);
            ensure!(std::str::from_utf8(e.as_bytes()).map_or(false, |s| s.chars().eq([c])), "encode_utf8({n:#x}) = {:?} is not the UTF-8 encoding", e.as_bytes());
            ensure!(e.as_str().len() == c.len_utf8(), "encode_utf8({n:#x}).as_str() has the wrong length");
        }
    }
    Ok(())
}

fn parser_fns(s: &str, ops: &[u8]) -> Result<(), String> {
    let mut p = Parser::new(s);
    for &op in ops {
        let keep = p;
        let r: Result<Parser<'_>, ()> = match op % 16 {
            0 => Ok(p.trim()),
            1 => Ok(p.trim_start()),
            2 => Ok(p.trim_end()),
            3 => Ok(p.trim_matches(",")),
            4 => Ok(p.trim_start_matches('é')),
            5 => p.strip_prefix("a").map_err(|_| ()),
            6 => p.strip_suffix('é').map_err(|_| ()),
            7 => p.find_skip(",").map_err(|_| ()),
            8 => p.rfind_skip('é').map_err(|_| ()),
            9 => p.split(",").map(|x| x.1).map_err(|_| ()),
            10 => p.rsplit('é').map(|x| x.1).map_err(|_| ()),
            11 => p.split_terminator(",").map(|x| x.1).map_err(|_| ()),
            12 => p.rsplit_terminator(',').map(|x| x.1).map_err(|_| ()),
            13 => Ok(p.skip((op / 16) as usize)),
            14 => Ok(p.skip_back((op / 16) as usize)),
            _ => p.parse_u8().map(|x| x.1).map_err(|_| ()),
        };
        p = r.unwrap_or(keep);
        inside_str("Parser::remainder", p.remainder(), s)?;
    }
    Ok(())
}

fn cstr_fns(b: &[u8]) -> Result<(), String> {
    if let Ok(c) = kc::from_bytes_until_nul(b) {
        inside("to_bytes_with_nul", kc::to_bytes_with_nul(c), b.as_ptr(), b.len())?;
        inside("to_bytes", kc::to_bytes(c), b.as_ptr(), b.len())?;
        if let Ok(s) = kc::to_str(c) {
            inside("to_str", s.as_bytes(), b.as_ptr(), b.len())?;
        }
    }
    if let Ok(c) = kc::from_bytes_with_nul(b) {
        inside("to_bytes_with_nul", kc::to_bytes_with_nul(c), b.as_ptr(), b.len())?;
    }
    Ok(())
}

fn misc_fns(n: usize) -> Result<(), String> {
    use core::mem::{ManuallyDrop, MaybeUninit};
    // maybe_uninit
    let mut arr: [MaybeUninit<String>; 3] = konst::maybe_uninit::uninit_array();
    for (i, slot) in arr.iter_mut().enumerate() {
        let r = konst::maybe_uninit::write(slot, format!("v{}", i + n));
        r.push('!');
    }
    let arr: [String; 3] = unsafe { konst::maybe_uninit::array_assume_init(arr) };
    ensure!(arr[2] == format!("v{}!", 2 + n), "maybe_uninit::write / array_assume_init round trip: {arr:?}");
    let e: [MaybeUninit<u8>; 0] = konst::maybe_uninit::uninit_array();
    let _e: [u8; 0] = unsafe { konst::maybe_uninit::array_assume_init(e) };
    // manually_drop
    let mut md = ManuallyDrop::new(format!("m{n}"));
    ensure!(konst::manually_drop::as_inner(&md) == &format!("m{n}"), "manually_drop::as_inner");
    konst::manually_drop::as_inner_mut(&mut md).push('x');
    let taken = unsafe { konst::manually_drop::take(&mut md) };
    ensure!(taken == format!("m{n}x"), "manually_drop::take");
    // ptr::nonnull
    let mut x = n as u32;
    let nn = konst::ptr::nonnull::from_ref(&x);
    ensure!(unsafe { *konst::ptr::nonnull::as_ref(nn) } == n as u32, "nonnull::from_ref/as_ref");
    let nm = konst::ptr::nonnull::from_mut(&mut x);
    unsafe { *konst::ptr::nonnull::as_mut(nm) += 1 };
    ensure!(x == n as u32 + 1, "nonnull::from_mut/as_mut");
    ensure!(konst::ptr::nonnull::new(core::ptr::null_mut::<u8>()).is_none() && konst::ptr::is_null(core::ptr::null::<u8>()), "null handling");
    ensure!(konst::ptr::nonnull::new(&mut x as *mut u32).is_some() && !konst::ptr::is_null(&x as *const u32), "non-null handling");
    ensure!(unsafe { konst::ptr::as_ref(&x as *const u32) } == Some(&x) && unsafe { konst::ptr::as_ref(core::ptr::null::<u32>()) }.is_none(), "ptr::as_ref");
    // at run time the two null tests are safe functions over *any* raw pointer: none of these may be dereferenced or
    // turned into a reference on the way (under Miri: unaligned / dangling / out-of-bounds reference, invalid metadata)
    {
        let base = &x as *const u32;
        let freed = { let b = Box::new(n as u32); let p = &*b as *const u32; drop(b); p };
        let odd: [*const u32; 6] = [
            (base as *const u8).wrapping_add(1) as *const u32,
            core::ptr::NonNull::<u32>::dangling().as_ptr() as *const u32,
            base.wrapping_add(1),
            base.wrapping_add(1000 + n),
            freed,
            core::ptr::without_provenance::<u32>(n + 1),
        ];
        for p in odd {
            ensure!(!konst::ptr::is_null(p), "ptr::is_null({p:?}) on a non-null pointer that is not a valid reference");
            ensure!(konst::ptr::nonnull::new(p as *mut u32).map(|q| q.as_ptr() as *const u32) == Some(p), "ptr::nonnull::new({p:?})");
        }
        let wide = core::ptr::slice_from_raw_parts(base as *const u8, usize::MAX - n);
        ensure!(!konst::ptr::is_null(wide) && konst::ptr::nonnull::new(wide as *mut [u8]).is_some(), "null tests on a slice pointer with a huge length");
        let wide_null = core::ptr::slice_from_raw_parts(core::ptr::null::<u8>(), 3);
        ensure!(konst::ptr::is_null(wide_null) && konst::ptr::nonnull::new(wide_null as *mut [u8]).is_none(), "null tests on a null slice pointer");
    }
    // macros wrapping unsafe blocks: array map / from_fn / collect_const / string::from_iter / destructure
    let m: [String; 3] = konst::array::map!([1u8, 2, 3], |x| format!("{}", x as usize + n));
    ensure!(m[2] == format!("{}", 3 + n), "array::map!");
    let z: [u8; 0] = konst::array::map!([0u8; 0], |x| x);
    let _ = z;
    let f: [Vec<u8>; 4] = konst::array::from_fn_!(|i| vec![i as u8; i]);
    ensure!(f[3] == vec![3u8; 3], "array::from_fn_!");
    const CC: [u32; 4] = konst::iter::collect_const!(u32 => 0..10u32, filter(|x| *x % 3 == 0));
    ensure!(CC == [0, 3, 6, 9], "collect_const!");
    const CE: [u32; 0] = konst::iter::collect_const!(u32 => 0..0u32);
    let _ = CE;
    const FI: &str = konst::string::from_iter!(&["é", "", "漢"], flat_map(|s| &[*s, "-"]));
    ensure!(FI == "é--漢-", "string::from_iter!");
    let (a, b): (String, Vec<u8>) = {
        konst::destructure! {(a, b) = (format!("d{n}"), vec![n as u8])}
        (a, b)
    };
    ensure!(a == format!("d{n}") && b == vec![n as u8], "destructure! tuple");
    {
        // packed structs: every field read must be an unaligned read (Miri checks alignment)
        #[repr(C, packed)]
        struct P(u8, u32, u8, u64, String);
        konst::destructure! {P(a, b, c, d, e) = P(1, n as u32, 3, 4, format!("p{n}"))}
        ensure!((a, b, c, d) == (1, n as u32, 3, 4) && e == format!("p{n}"), "destructure! packed tuple struct");
        #[repr(C, packed)]
        struct Q {
            x: u8,
            y: u128,
            z: Vec<u8>,
        }
        konst::destructure! {Q{x, y, z} = Q{x: 9, y: 1 << 100, z: vec![n as u8]}}
        ensure!(x == 9 && y == 1 << 100 && z == vec![n as u8], "destructure! packed braced struct");
    }
    konst::destructure! {[h, rest @ .., t] = [format!("0"), format!("1"), format!("2"), format!("3")]}
    ensure!(h == "0" && rest == [format!("1"), format!("2")] && t == "3", "destructure! array");
    Ok(())
}

pub fn run_case(c: &Case) -> Result<(), String> {
    match c {
        Case::Slice { elem, len, a, b } => match elem {
            0 => slice_fns::<u8>(*len, *a, *b),
            1 => slice_fns::<u64>(*len, *a, *b),
            2 => slice_fns::<()>(*len, *a, *b),
            3 => slice_fns::<String>(*len, *a, *b),
            _ => slice_fns::<[u8; 3]>(*len, *a, *b),
        },
        Case::Bytes { hay, pat } => bytes_fns(hay, pat),
        Case::Str { s, pat, a, b } => str_fns(s, pat, *a, *b),
        Case::Iter { s, pat, hist } => iter_fns(s, pat, *hist),
        Case::Chars { lo } => chars_fns(*lo),
        Case::Parser { s, ops } => parser_fns(s, ops),
        Case::CStr { bytes } => cstr_fns(bytes),
        Case::Misc { n } => misc_fns(*n),
    }
}

fn eval(ctx: &mut Ctx, c: Case) {
    ctx.case("api_postconditions", &c, |ctx| {
        let (nt, cls) = match &c {
            Case::Slice { elem, len, a, b } => (gen::edgy_index(*a, *len) || gen::edgy_index(*b, *len) || *elem >= 2, "slice"),
            Case::Bytes { hay, pat } => (!pat.is_empty() && gen::naive_find(hay, pat).is_some(), "bytes"),
            Case::Str { s, a, b, .. } => (!s.is_ascii() && (*a >= s.len() || !s.is_char_boundary(*a) || *b >= s.len() || !s.is_char_boundary(*b)), "str"),
            Case::Iter { s, .. } => (!s.is_ascii(), "iter"),
            Case::Chars { .. } => (true, "chars"),
            Case::Parser { ops, .. } => (ops.len() >= 2, "parser"),
            Case::CStr { bytes } => (bytes.contains(&0), "cstr"),
            Case::Misc { .. } => (true, "misc"),
        };
        if nt {
            ctx.nontrivial(cls, &c, || json!(c));
        }
        run_case(&c)
    });
}

fn explore(ctx: &mut Ctx, miri: bool) {
    let lens: Vec<usize> = if miri { vec![0, 1, 3] } else { (0..=ctx.by_tier(8, 16)).chain([64]).collect() };
    for &len in &lens {
        let idx = if miri { vec![0, 1, len.saturating_sub(1), len, len + 1, usize::MAX, isize::MAX as usize + 1] } else { gen::index_set(len) };
        for elem in 0..5u8 {
            if miri && (elem == 1 || elem == 4) {
                continue;
            }
            for &a in &idx {
                for &b in &idx {
                    if miri && a.wrapping_add(b) % 3 == 1 && a != usize::MAX {
                        continue;
                    }
                    eval(ctx, Case::Slice { elem, len, a, b });
                }
            }
        }
    }
    ctx.exhaustive_part("slice functions + slice iterators + array conversions: lengths x 5 element types (u8,u64,(),String,[u8;3]) x edge index set^2");
    let byte_alpha: &[u8] = if miri { &[b'a', 0xc3, b' '] } else { &[b'a', b'b', 0xc3, 0xa9, b' ', 0xff] };
    let hays = gen::seqs(byte_alpha, if miri { 3 } else { ctx.by_tier(4, 5) });
    let pats = gen::seqs(byte_alpha, if miri { 1 } else { 2 });
    for h in &hays {
        for p in &pats {
            eval(ctx, Case::Bytes { hay: h.clone(), pat: p.clone() });
        }
    }
    ctx.exhaustive_part("byte-pattern functions: all byte strings over {a,b,0xC3,0xA9,' ',0xFF} (len <= 4-5) x patterns (len <= 2), every applicable pattern kind");
    let text: &[&str] = if miri { &["a", "é", "\u{800}", "😀"] } else { &["a", "é", "漢", "\u{800}", "😀", " ", ","] };
    let strs = gen::strings(text, if miri { 3 } else { ctx.by_tier(4, 5) });
    let spats = gen::strings(text, if miri { 1 } else { 2 });
    for (i, s) in strs.iter().enumerate() {
        let idx: Vec<usize> = (0..=s.len() + 1).chain([usize::MAX]).collect();
        for (j, p) in spats.iter().enumerate() {
            // indices rotate with the pattern to keep the product affordable
            let a = idx[(i + j) % idx.len()];
            let b = idx[(i * 7 + j * 3) % idx.len()];
            eval(ctx, Case::Str { s: s.clone(), pat: p.clone(), a, b });
            if (i + j) % (if miri { 5 } else { 2 }) == 0 {
                eval(ctx, Case::Iter { s: s.clone(), pat: p.clone(), hist: (i * 2654435761 + j * 40503) as u32 });
            }
        }
        for (k, &a) in idx.iter().enumerate() {
            if miri && k % 4 != i % 4 {
                continue;
            }
            eval(ctx, Case::Str { s: s.clone(), pat: String::new(), a, b: idx[(a.wrapping_add(i)) % idx.len()] });
        }
    }
    ctx.exhaustive_part("str functions and split/chars iterators: all strings over {a,é,漢,😀,' ',','} (<= 4-5 chars) x patterns (<= 2 chars) with rotating indices, every index for the slicing functions");
    let step = if miri { 0x4000 } else { 64 };
    let mut lo = 0u32;
    while lo < 0x11_0100 {
        eval(ctx, Case::Chars { lo });
        lo += step;
    }
    for lo in [0xD7C0u32, 0xDFC0, 0x10FFC0, u32::MAX - 70] {
        eval(ctx, Case::Chars { lo });
    }
    ctx.exhaustive_part("from_u32 / encode_utf8 over 0..0x110100 (miri: strided) + surrogate and upper edges");
    for n in 0..(if miri { 2 } else { 8 }) {
        eval(ctx, Case::Misc { n });
    }
    gen::for_each_seq(&[0u8, b'a', 0xff], if miri { 3 } else { 6 }, |b| eval(ctx, Case::CStr { bytes: b.to_vec() }));
    // parser walks
    let origs = ["", "a,é,1", " é,é ", "12,é"];
    let mut rng = kvh::Rng::new(ctx.args.seed, "c01-parser");
    for o in origs {
        for _ in 0..(if miri { 6 } else { 400 }) {
            let ops: Vec<u8> = (0..(rng.below(6) + 1)).map(|_| rng.next() as u8).collect();
            eval(ctx, Case::Parser { s: o.to_string(), ops });
        }
    }
    if miri {
        return;
    }
    let n = ctx.by_tier(40_000, 1_000_000);
    let strat = (
        proptest::collection::vec(prop_oneof![Just('a'), Just('é'), Just('漢'), Just('😀'), Just(','), Just(' '), Just('\u{800}'), Just('\u{fff}'), Just('\u{7ff}'), Just('\u{ffff}'), Just('\u{10000}'), any::<char>()], 0..16),
        proptest::collection::vec(prop_oneof![Just('a'), Just('é'), Just(','), any::<char>()], 0..3),
        (0u8..3, any::<usize>()),
        (0u8..3, any::<usize>()),
        any::<u32>(),
    );
    ctx.prop("api_postconditions", n, strat, |ctx, (s, p, a, b, hist)| {
        let (c1, c2) = fold_case(s, p, *a, *b, *hist);
        ctx.label("random");
        ctx.nontrivial("random", &c1, || json!(c1));
        run_case(&c1)?;
        run_case(&c2)
    });
}

pub fn fold_case(s: &[char], p: &[char], a: (u8, usize), b: (u8, usize), hist: u32) -> (Case, Case) {
    let s: String = s.iter().collect();
    let pat: String = p.iter().collect();
    let f = |(sel, raw): (u8, usize)| if sel < 2 { raw % (s.len() + 3) } else { raw };
    (Case::Str { s: s.clone(), pat: pat.clone(), a: f(a), b: f(b) }, Case::Iter { s, pat, hist })
}

fn main() {
    kvh::on_thread(real_main);
}

fn real_main() {
    let args = kvh::parse_args("C01", "c01");
    let miri = args.mode == "miri";
    let mut ctx = Ctx::new(args.clone(), RULE);
    if miri {
        ctx.assume("miri mode: compact deterministic corpus; Miri is the UB oracle (out-of-bounds pointer arithmetic, uninitialised reads, invalid values, aliasing violations)");
    }
    ctx.assume("ptr::is_null / ptr::nonnull::new: any raw pointer at run time (misaligned, dangling, freed, out of bounds, huge slice metadata); in const evaluation only null / in-bounds / one-past-the-end pointers must evaluate (listed finding for the rest, gen_const)");
    if let Some(p) = &args.replay {
        let (_check, case) = kvh::load_replay(p);
        let cs: Vec<Case> = match serde_json::from_value::<Case>(case.clone()) {
            Ok(c) => vec![c],
            Err(_) => {
                let (s, p, a, b, h): (Vec<char>, Vec<char>, (u8, usize), (u8, usize), u32) = serde_json::from_value(case).expect("replay case");
                let (c1, c2) = fold_case(&s, &p, a, b, h);
                vec![c1, c2]
            }
        };
        for c in cs {
            println!("replaying {:?}", c);
            ctx.case("api_postconditions", &c, |_| run_case(&c));
        }
    } else {
        explore(&mut ctx, miri);
    }
    std::process::exit(ctx.finish());
}

//! C03 — string slicing agrees with std str indexing, including char-boundary rules.
use konst::string as kstr;
use kvh::{catch, gen, Ctx};
use proptest::prelude::*;
use serde::{Deserialize, Serialize};
use serde_json::json;

const RULE: &str = "cases = (constructed UTF-8 string, byte index a, byte index b); oracle = str::is_char_boundary / str::get(range) / &s[a'..b'] with indices clamped to len, expected panic iff an index < len is not a char boundary; results compared by address+length; non-trivial = an index strictly inside a multi-byte char, or == len, or > len, or start>end; distinct by (string,a,b,group)";

#[derive(Serialize, Deserialize, Debug, Clone, Hash)]
pub struct Case {
    s: String,
    a: usize,
    /// None = single-index group
    b: Option<usize>,
}

macro_rules! ensure {
    ($c:expr, $($fmt:tt)*) => { if !$c { return Err(format!($($fmt)*)); } };
}

fn same(a: &str, b: &str) -> bool {
    a.len() == b.len() && (a.is_empty() || a.as_ptr() == b.as_ptr())
}
fn same_opt(a: Option<&str>, b: Option<&str>) -> bool {
    match (a, b) {
        (None, None) => true,
        (Some(a), Some(b)) => same(a, b),
        _ => false,
    }
}
fn d(x: &str, base: &str) -> String {
    if x.is_empty() {
        return "\"\"".into();
    }
    let off = (x.as_ptr() as usize).wrapping_sub(base.as_ptr() as usize);
    format!("[{}..{}]={:?}", off, off.wrapping_add(x.len()), x)
}
fn dopt(x: Option<&str>, base: &str) -> String {
    x.map(|x| format!("Some({})", d(x, base))).unwrap_or("None".into())
}
fn dres(x: &Result<&str, String>, base: &str) -> String {
    match x {
        Ok(x) => d(x, base),
        Err(e) => format!("panic({e})"),
    }
}

/// inside(i): index is in range and not on a boundary => clamping functions must panic
fn inside(s: &str, i: usize) -> bool {
    i < s.len() && !s.is_char_boundary(i)
}

fn valid_sub(s: &str, r: &str) -> Result<(), String> {
    // C01-style post-condition on every returned string
    ensure!(std::str::from_utf8(r.as_bytes()).is_ok(), "returned str is not valid UTF-8");
    if !r.is_empty() {
        let off = (r.as_ptr() as usize).wrapping_sub(s.as_ptr() as usize);
        ensure!(off <= s.len() && off + r.len() <= s.len(), "returned str outside the argument");
        ensure!(s.is_char_boundary(off) && s.is_char_boundary(off + r.len()), "returned str not on char boundaries");
    }
    Ok(())
}

fn check_idx(s: &str, a: usize) -> Result<(), String> {
    let len = s.len();
    ensure!(
        kstr::is_char_boundary(s, a) == s.is_char_boundary(a),
        "is_char_boundary({s:?},{a}): konst {} std {}",
        kstr::is_char_boundary(s, a),
        s.is_char_boundary(a)
    );
    let (k, o) = (kstr::get_from(s, a), s.get(a..));
    ensure!(same_opt(k, o), "get_from({s:?},{a}): konst {} std {}", dopt(k, s), dopt(o, s));
    let (k, o) = (kstr::get_up_to(s, a), s.get(..a));
    ensure!(same_opt(k, o), "get_up_to({s:?},{a}): konst {} std {}", dopt(k, s), dopt(o, s));

    let at = a.min(len);
    let must_panic = inside(s, a);
    let k = catch(|| kstr::str_from(s, a));
    ensure!(k.is_err() == must_panic, "str_from({s:?},{a}): konst {} but panic expected={must_panic}", dres(&k, s));
    if let Ok(k) = k {
        ensure!(same(k, &s[at..]), "str_from({s:?},{a}): konst {} expected {}", d(k, s), d(&s[at..], s));
        valid_sub(s, k)?;
    }
    let k = catch(|| kstr::str_up_to(s, a));
    ensure!(k.is_err() == must_panic, "str_up_to({s:?},{a}): konst {} but panic expected={must_panic}", dres(&k, s));
    if let Ok(k) = k {
        ensure!(same(k, &s[..at]), "str_up_to({s:?},{a}): konst {} expected {}", d(k, s), d(&s[..at], s));
        valid_sub(s, k)?;
    }
    let k = catch(|| kstr::split_at(s, a));
    ensure!(k.is_err() == must_panic, "split_at({s:?},{a}): panicked={} but panic expected={must_panic}", k.is_err());
    if let Ok((l, r)) = k {
        ensure!(
            same(l, &s[..at]) && same(r, &s[at..]),
            "split_at({s:?},{a}): konst ({}, {}) expected ({:?}, {:?})",
            d(l, s),
            d(r, s),
            &s[..at],
            &s[at..]
        );
        if a <= len {
            let o = s.split_at(a);
            ensure!(same(l, o.0) && same(r, o.1), "split_at({s:?},{a}) differs from str::split_at");
        }
    }
    Ok(())
}

fn check_range(s: &str, a: usize, b: usize) -> Result<(), String> {
    let len = s.len();
    let (k, o) = (kstr::get_range(s, a, b), s.get(a..b));
    ensure!(same_opt(k, o), "get_range({s:?},{a},{b}): konst {} std {}", dopt(k, s), dopt(o, s));
    if let Some(k) = k {
        valid_sub(s, k)?;
    }
    let must_panic = inside(s, a) || inside(s, b);
    let k = catch(|| kstr::str_range(s, a, b));
    ensure!(k.is_err() == must_panic, "str_range({s:?},{a},{b}): konst {} but panic expected={must_panic}", dres(&k, s));
    if let Ok(k) = k {
        let (a2, b2) = (a.min(len), b.min(len));
        let want = if a2 <= b2 { &s[a2..b2] } else { "" };
        ensure!(same(k, want), "str_range({s:?},{a},{b}): konst {} expected {}", d(k, s), d(want, s));
        valid_sub(s, k)?;
    }
    Ok(())
}

pub fn run_case(c: &Case) -> Result<(), String> {
    match c.b {
        None => check_idx(&c.s, c.a),
        Some(b) => check_range(&c.s, c.a, b),
    }
}

fn nontrivial(s: &str, i: usize) -> bool {
    i >= s.len() || !s.is_char_boundary(i)
}

fn eval(ctx: &mut Ctx, c: Case) {
    ctx.case("str_index", &c, |ctx| {
        let s = c.s.as_str();
        let inside_a = inside(s, c.a);
        match c.b {
            None => {
                ctx.label(if inside_a { "idx_inside_char" } else if c.a > s.len() { "idx>len" } else if c.a == s.len() { "idx==len" } else { "idx_boundary" });
                if nontrivial(s, c.a) {
                    ctx.nontrivial("idx", &c, || json!(c));
                }
            }
            Some(b) => {
                if inside_a || inside(s, b) {
                    ctx.label("range_expect_panic");
                }
                if c.a > b {
                    ctx.label("start>end");
                }
                if nontrivial(s, c.a) || nontrivial(s, b) || c.a > b {
                    ctx.nontrivial("range", &c, || json!(c));
                }
            }
        }
        run_case(&c)
    });
}

fn explore(ctx: &mut Ctx) {
    let max_chars = ctx.by_tier(5, 6);
    let mut strs = gen::strings(&gen::TEXT4, max_chars);
    // boundary scalars: every pair of boundary chars, and each next to ASCII
    for &c1 in &gen::BOUNDARY_CHARS {
        for &c2 in &gen::BOUNDARY_CHARS {
            strs.push(format!("{c1}{c2}"));
            strs.push(format!("x{c1}y{c2}"));
        }
    }
    for s in &strs {
        let idx = gen::index_set(s.len());
        for &a in &idx {
            eval(ctx, Case { s: s.clone(), a, b: None });
            for &b in &idx {
                eval(ctx, Case { s: s.clone(), a, b: Some(b) });
            }
        }
        if ctx.too_many() {
            return;
        }
    }
    ctx.exhaustive_part(&format!(
        "all strings of 0..={max_chars} chars over {{a,é,漢,😀}} + 162 strings of boundary scalars, x index set {{0..=len+2, usize::MAX neighbourhood, isize::MAX neighbourhood}} x all pairs"
    ));
    // lead-byte sweep: the first and last scalar of every UTF-8 lead byte, in 8 short contexts, every index / pair
    for s in gen::lead_byte_strings() {
        let idx: Vec<usize> = (0..=s.len() + 1).chain([usize::MAX]).collect();
        for &a in &idx {
            eval(ctx, Case { s: s.clone(), a, b: None });
            for &b in &idx {
                eval(ctx, Case { s: s.clone(), a, b: Some(b) });
            }
        }
    }
    ctx.exhaustive_part("lead-byte sweep: first / last scalar of each of the 51 UTF-8 lead bytes (+ U+0000, U+007F) x 8 short contexts x every index 0..=len+1, usize::MAX x all pairs");
    for s in gen::special_char_strings() {
        let idx: Vec<usize> = (0..=s.len() + 1).chain([usize::MAX]).collect();
        for &a in &idx {
            eval(ctx, Case { s: s.clone(), a, b: None });
            for &b in &idx {
                eval(ctx, Case { s: s.clone(), a, b: Some(b) });
            }
        }
    }
    ctx.exhaustive_part("16 special chars (BOM, U+FFFD, Unicode white space / separators, zero-width, fullwidth digit, DEL, ESC) in 6 contexts x every index x all pairs");
    // long strings (beyond the exhaustive bound): 17..=70 bytes, every index and every pair
    for (k, n) in [(1usize, 9usize), (2, 14), (3, 23), (5, 31)] {
        let pool = ['a', 'é', '漢', '😀', '\u{7ff}', '\u{800}', '\u{ffff}', 'z'];
        let s: String = (0..n).map(|i| pool[(i * k + i / 4) % pool.len()]).collect();
        let idx: Vec<usize> = (0..=s.len() + 2).chain([usize::MAX]).collect();
        for &a in &idx {
            eval(ctx, Case { s: s.clone(), a, b: None });
            for &b in &idx {
                eval(ctx, Case { s: s.clone(), a, b: Some(b) });
            }
        }
    }
    ctx.exhaustive_part("4 long strings (9..=31 chars, 17..=70 bytes, all UTF-8 widths) x every index 0..=len+2, usize::MAX x all pairs");
    // one string longer than 2^16 bytes: indices around 2^8, 2^15, 2^16 and the length (offsets narrowed to u8 / u16 /
    // i16 somewhere would show here), each alone and in pairs
    {
        let unit = "ab\u{e9}\u{4e2a}\u{1f600}c"; // 1+1+2+3+4+1 = 12 bytes
        let s: String = unit.repeat(70_000 / 12 + 1);
        let len = s.len();
        let mut idx = vec![0usize, 1, 11, 12, 13, 255, 256, 257, 258, 32_766, 32_767, 32_768, 32_769, 65_534, 65_535, 65_536, 65_537, 65_538, len - 2, len - 1, len, len + 1, usize::MAX];
        idx.extend(gen::congruent(len).into_iter().filter(|&i| i > len));
        for &a in &idx {
            eval(ctx, Case { s: s.clone(), a, b: None });
            for &b in &idx {
                eval(ctx, Case { s: s.clone(), a, b: Some(b) });
            }
        }
        ctx.exhaustive_part(&format!("one string of {len} bytes (all UTF-8 widths) x {} indices around 2^8, 2^15, 2^16, the length and values congruent to small indices modulo 2^k, alone and in pairs", idx.len()));
    }
    // random: longer strings over a wider alphabet
    let n = ctx.by_tier(100_000, 2_000_000);
    let ch = prop_oneof![
        Just('a'),
        Just('é'),
        Just('漢'),
        Just('😀'),
        Just('\u{7f}'),
        Just('\u{80}'),
        Just('\u{7ff}'),
        Just('\u{800}'),
        Just('\u{ffff}'),
        Just('\u{10000}'),
        Just('\u{10ffff}'),
        any::<char>(),
    ];
    let strat = (
        proptest::collection::vec(ch, 0..24),
        (0u8..3, any::<usize>()),
        proptest::option::of((0u8..3, any::<usize>())),
    );
    ctx.prop("str_index", n, strat, |ctx, (chars, a, b)| {
        let c = fold_case(chars, *a, *b);
        ctx.label("random");
        if nontrivial(&c.s, c.a) || c.b.map_or(false, |b| nontrivial(&c.s, b)) {
            ctx.nontrivial("random", &c, || json!(c));
        }
        run_case(&c)
    });
}

fn fold_idx((sel, raw): (u8, usize), len: usize) -> usize {
    match sel {
        0 | 1 => raw % (len + 3),
        _ => raw,
    }
}
pub fn fold_case(chars: &[char], a: (u8, usize), b: Option<(u8, usize)>) -> Case {
    let s: String = chars.iter().collect();
    let len = s.len();
    Case { a: fold_idx(a, len), b: b.map(|b| fold_idx(b, len)), s }
}

fn main() {
    kvh::on_thread(real_main);
}

fn real_main() {
    let args = kvh::parse_args("C03", "c03");
    let mut ctx = Ctx::new(args.clone(), RULE);
    if let Some(p) = &args.replay {
        let (_check, case) = kvh::load_replay(p);
        let c: Case = match serde_json::from_value::<Case>(case.clone()) {
            Ok(c) => c,
            Err(_) => {
                let (chars, a, b): (Vec<char>, (u8, usize), Option<(u8, usize)>) =
                    serde_json::from_value(case).expect("replay case");
                fold_case(&chars, a, b)
            }
        };
        println!("replaying {:?}", c);
        ctx.case("str_index", &c, |_| run_case(&c));
    } else {
        explore(&mut ctx);
    }
    std::process::exit(ctx.finish());
}

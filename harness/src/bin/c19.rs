//! C19 (in-process half) — Option/Result macros, try_!/try_opt!, min!/max! families equal their
//! std / `?` counterparts.  The rebind-macro half (program space, rustc verdicts per arity) is decided
//! by progs/gen_rebind.py.
use core::cmp::Ordering;
use konst::{max, max_by, max_by_key, min, min_by, min_by_key, option, result, try_, try_opt};
use kvh::Ctx;
use proptest::prelude::*;
use serde::{Deserialize, Serialize};
use serde_json::json;
use std::cell::Cell;

const RULE: &str = "cases = (macro group, variant Some/None/Ok/Err, payload, second payload); every option::/result:: macro in every accepted argument form (inline closure, closure with pattern parameter, function path) is compared with the std method of the same name on the same value (payload types i64, String, &str, (), tuples), the fallback/mapper call counter must equal std's (0 or 1), and with effectful subject / value-argument expressions the number of evaluations must equal the method call's (each exactly once) and, for the option:: / result:: macros, their order too (receiver before argument); try_!/try_opt! (with and without map_err) against `?`; min!/max!/min_by!/max_by!/min_by_key!/max_by_key! against std::cmp on keyed values with distinguishable identity (which argument is returned, incl. equal keys) and on primitives and compound keys (Option<&[u32]>, &[u32], Option<&str>); non-trivial = the variant that triggers the fallback, boundary payloads, equal keys with different tags; distinct by the whole case";

#[derive(Serialize, Deserialize, Debug, Clone, Hash)]
struct Case {
    /// 0 option macros, 1 result macros, 2 try macros, 3 min/max keyed, 4 min/max primitives
    group: u8,
    /// Some/Ok (true) or None/Err (false)
    pos: bool,
    a: i64,
    b: i64,
}

macro_rules! ensure {
    ($c:expr, $($fmt:tt)*) => { if !$c { return Err(format!($($fmt)*)); } };
}

thread_local! {
    static CALLS: Cell<u32> = const { Cell::new(0) };
    static ARG: Cell<i64> = const { Cell::new(0) };
}
fn calls() -> u32 {
    CALLS.with(|c| c.replace(0))
}
fn tick() {
    CALLS.with(|c| c.set(c.get() + 1));
}
thread_local! {
    /// order-sensitive trace of the argument expressions that were evaluated
    static TRACE: Cell<u64> = const { Cell::new(0) };
}
fn trace() -> u64 {
    TRACE.with(|c| c.replace(0))
}
/// marks "argument expression #id was evaluated now"
fn at(id: u64) {
    TRACE.with(|c| c.set(c.get().wrapping_mul(10).wrapping_add(id)));
    tick();
}
/// a call expression that yields a function ("argument expression #2 was evaluated now")
fn mk2<F>(f: F) -> F {
    at(2);
    f
}
// function-path forms
fn fb() -> i64 {
    tick();
    ARG.with(|a| a.get())
}
fn fb_opt() -> Option<i64> {
    tick();
    Some(ARG.with(|a| a.get()))
}
fn mapper(x: i64) -> i64 {
    tick();
    x.wrapping_mul(3).wrapping_sub(1)
}
fn opt_mapper(x: i64) -> Option<i64> {
    tick();
    if x % 2 == 0 {
        Some(x.wrapping_add(1))
    } else {
        None
    }
}
fn res_mapper(x: i64) -> Result<i64, i64> {
    tick();
    if x % 2 == 0 {
        Ok(x.wrapping_add(1))
    } else {
        Err(x.wrapping_sub(1))
    }
}
fn pred(x: &i64) -> bool {
    tick();
    *x % 2 == 0
}

/// compares value and call count of a konst expression with a std expression
macro_rules! same {
    ($name:literal, $k:expr, $o:expr) => {{
        calls();
        trace();
        let k = $k;
        let (kc, kt) = (calls(), trace());
        let o = $o;
        let (oc, ot) = (calls(), trace());
        ensure!(k == o, "{}: konst {:?} std {:?}", $name, k, o);
        ensure!(kc == oc, "{}: konst called the closure/function {} time(s), std {}", $name, kc, oc);
        ensure!(kt == ot, "{}: konst evaluated its argument expressions in the order {}, the method call in the order {}", $name, kt, ot);
    }};
}

fn option_macros(v: Option<i64>, b: i64) -> Result<(), String> {
    ARG.with(|a| a.set(b));
    same!("option::unwrap_or!", option::unwrap_or!(v, b), v.unwrap_or(b));
    same!("option::unwrap_or_else!(closure)", option::unwrap_or_else!(v, || { tick(); b }), v.unwrap_or_else(|| { tick(); b }));
    same!("option::unwrap_or_else!(fn)", option::unwrap_or_else!(v, fb), v.unwrap_or_else(fb));
    same!("option::ok_or!", option::ok_or!(v, b), v.ok_or(b));
    same!("option::ok_or_else!(closure)", option::ok_or_else!(v, || { tick(); b }), v.ok_or_else(|| { tick(); b }));
    same!("option::ok_or_else!(fn)", option::ok_or_else!(v, fb), v.ok_or_else(fb));
    same!("option::map!(closure)", option::map!(v, |x| { tick(); x.wrapping_add(b) }), v.map(|x| { tick(); x.wrapping_add(b) }));
    same!("option::map!(fn)", option::map!(v, mapper), v.map(mapper));
    same!("option::map!(pattern param)", option::map!(v.map(|x| (x, b)), |(x, y)| { tick(); x ^ y }), v.map(|x| (x, b)).map(|(x, y)| { tick(); x ^ y }));
    same!("option::and_then!(closure)", option::and_then!(v, |x| { tick(); if x > b { Some(x) } else { None } }), v.and_then(|x| { tick(); if x > b { Some(x) } else { None } }));
    same!("option::and_then!(fn)", option::and_then!(v, opt_mapper), v.and_then(opt_mapper));
    same!("option::or_else!(closure)", option::or_else!(v, || { tick(); Some(b) }), v.or_else(|| { tick(); Some(b) }));
    same!("option::or_else!(closure->None)", option::or_else!(v, || { tick(); None::<i64> }), v.or_else(|| { tick(); None }));
    same!("option::or_else!(fn)", option::or_else!(v, fb_opt), v.or_else(fb_opt));
    same!("option::filter!(closure)", option::filter!(v, |x| { tick(); *x >= b }), v.filter(|x| { tick(); *x >= b }));
    same!("option::filter!(ref pattern)", option::filter!(v, |&x| { tick(); x >= b }), v.filter(|&x| { tick(); x >= b }));
    same!("option::filter!(fn)", option::filter!(v, pred), v.filter(pred));
    for outer in [Some(v), None] {
        same!("option::flatten!", option::flatten!(outer), outer.flatten());
    }
    // argument expressions with an effect: like the method call, every macro evaluates its subject and its value
    // argument exactly once, whichever variant the subject has (the call counter sees a skipped or repeated one)
    same!("option::unwrap_or!(effectful arguments)", option::unwrap_or!({ at(1); v }, { at(2); b }), { at(1); v }.unwrap_or({ at(2); b }));
    same!("option::ok_or!(effectful arguments)", option::ok_or!({ at(1); v }, { at(2); b }), { at(1); v }.ok_or({ at(2); b }));
    same!("option::unwrap_or_else!(effectful subject)", option::unwrap_or_else!({ tick(); v }, fb), { tick(); v }.unwrap_or_else(fb));
    same!("option::ok_or_else!(effectful subject)", option::ok_or_else!({ tick(); v }, fb), { tick(); v }.ok_or_else(fb));
    same!("option::map!(effectful subject)", option::map!({ tick(); v }, mapper), { tick(); v }.map(mapper));
    same!("option::and_then!(effectful subject)", option::and_then!({ tick(); v }, opt_mapper), { tick(); v }.and_then(opt_mapper));
    same!("option::or_else!(effectful subject)", option::or_else!({ tick(); v }, fb_opt), { tick(); v }.or_else(fb_opt));
    same!("option::filter!(effectful subject)", option::filter!({ tick(); v }, pred), { tick(); v }.filter(pred));
    same!("option::flatten!(effectful subject)", option::flatten!({ tick(); Some(v) }), { tick(); Some(v) }.flatten());
    if v.is_some() {
        same!("option::unwrap!", option::unwrap!(v), v.unwrap());
    } else {
        ensure!(kvh::catch(|| option::unwrap!(v)).is_err(), "option::unwrap!(None) did not panic");
    }
    Ok(())
}

/// the same macros on payloads that are not Copy (String), zero-sized (()), and references: the expansion moves the
/// payload exactly like the method does
fn option_macros_other_payloads(v: Option<i64>, b: i64) -> Result<(), String> {
    let s = |x: i64| format!("s{x}");
    let vs: Option<String> = v.map(s);
    same!("option::unwrap_or!(String)", option::unwrap_or!(vs.clone(), s(b)), vs.clone().unwrap_or(s(b)));
    same!("option::unwrap_or_else!(String)", option::unwrap_or_else!(vs.clone(), || { tick(); s(b) }), vs.clone().unwrap_or_else(|| { tick(); s(b) }));
    same!("option::ok_or!(String, String)", option::ok_or!(vs.clone(), s(b)), vs.clone().ok_or(s(b)));
    same!("option::map!(String -> usize)", option::map!(vs.clone(), |x| { tick(); x.len() }), vs.clone().map(|x| { tick(); x.len() }));
    same!("option::map!(String -> String)", option::map!(vs.clone(), |x| { tick(); x + "!" }), vs.clone().map(|x: String| { tick(); x + "!" }));
    same!("option::and_then!(String)", option::and_then!(vs.clone(), |x| { tick(); if x.len() > 2 { Some(x) } else { None } }), vs.clone().and_then(|x| { tick(); if x.len() > 2 { Some(x) } else { None } }));
    same!("option::filter!(String)", option::filter!(vs.clone(), |x| { tick(); x.len() % 2 == 0 }), vs.clone().filter(|x| { tick(); x.len() % 2 == 0 }));
    same!("option::or_else!(String)", option::or_else!(vs.clone(), || { tick(); Some(s(b)) }), vs.clone().or_else(|| { tick(); Some(s(b)) }));
    let vr: Option<&str> = vs.as_deref();
    same!("option::map!(&str)", option::map!(vr, |x| { tick(); x.len() }), vr.map(|x| { tick(); x.len() }));
    same!("option::unwrap_or!(&str)", option::unwrap_or!(vr, "fallback"), vr.unwrap_or("fallback"));
    let vu: Option<()> = v.map(|_| ());
    same!("option::map!(())", option::map!(vu, |()| { tick(); 5u8 }), vu.map(|()| { tick(); 5u8 }));
    same!("option::ok_or!((), ())", option::ok_or!(vu, ()), vu.ok_or(()));
    let vt: Option<(i64, String)> = v.map(|x| (x, s(x)));
    same!("option::map!(tuple pattern, String)", option::map!(vt.clone(), |(n, t)| { tick(); format!("{n}{t}") }), vt.clone().map(|(n, t)| { tick(); format!("{n}{t}") }));
    let rs: Result<String, String> = match v { Some(x) => Ok(s(x)), None => Err(s(b)) };
    same!("result::unwrap_or!(String)", result::unwrap_or!(rs.clone(), s(b)), rs.clone().unwrap_or(s(b)));
    same!("result::map!(String)", result::map!(rs.clone(), |x| { tick(); x.len() }), rs.clone().map(|x| { tick(); x.len() }));
    same!("result::map_err!(String)", result::map_err!(rs.clone(), |e| { tick(); e.len() }), rs.clone().map_err(|e| { tick(); e.len() }));
    same!("result::ok!(String)", result::ok!(rs.clone()), rs.clone().ok());
    same!("result::err!(String)", result::err!(rs.clone()), rs.clone().err());
    same!("result::and_then!(String)", result::and_then!(rs.clone(), |x| { tick(); if x.len() > 2 { Ok(x) } else { Err(x) } }), rs.clone().and_then(|x| { tick(); if x.len() > 2 { Ok(x) } else { Err(x) } }));
    same!("result::or_else!(String)", result::or_else!(rs.clone(), |e| { tick(); if e.len() > 2 { Ok::<String, String>(e) } else { Err(e) } }), rs.clone().or_else(|e| { tick(); if e.len() > 2 { Ok::<String, String>(e) } else { Err(e) } }));
    same!("result::unwrap_or_else!(String)", result::unwrap_or_else!(rs.clone(), |e| { tick(); e + "?" }), rs.clone().unwrap_or_else(|e| { tick(); e + "?" }));
    Ok(())
}

fn result_macros(v: Result<i64, i64>, b: i64) -> Result<(), String> {
    ARG.with(|a| a.set(b));
    same!("result::unwrap_or!", result::unwrap_or!(v, b), v.unwrap_or(b));
    same!("result::unwrap_or_else!(closure)", result::unwrap_or_else!(v, |e| { tick(); e.wrapping_add(b) }), v.unwrap_or_else(|e| { tick(); e.wrapping_add(b) }));
    same!("result::unwrap_or_else!(fn)", result::unwrap_or_else!(v, mapper), v.unwrap_or_else(mapper));
    same!("result::unwrap_err_or_else!(closure)", result::unwrap_err_or_else!(v, |x| { tick(); x.wrapping_sub(b) }), match v { Ok(x) => { tick(); x.wrapping_sub(b) } Err(e) => e });
    same!("result::unwrap_err_or_else!(fn)", result::unwrap_err_or_else!(v, mapper), match v { Ok(x) => mapper(x), Err(e) => e });
    same!("result::ok!", result::ok!(v), v.ok());
    same!("result::err!", result::err!(v), v.err());
    same!("result::map!(closure)", result::map!(v, |x| { tick(); x.wrapping_add(b) }), v.map(|x| { tick(); x.wrapping_add(b) }));
    same!("result::map!(fn)", result::map!(v, mapper), v.map(mapper));
    same!("result::map_err!(closure)", result::map_err!(v, |e| { tick(); e.wrapping_add(b) }), v.map_err(|e| { tick(); e.wrapping_add(b) }));
    same!("result::map_err!(fn)", result::map_err!(v, mapper), v.map_err(mapper));
    same!("result::and_then!(closure)", result::and_then!(v, |x| { tick(); if x > b { Ok(x) } else { Err(b) } }), v.and_then(|x| { tick(); if x > b { Ok(x) } else { Err(b) } }));
    same!("result::and_then!(fn)", result::and_then!(v, res_mapper), v.and_then(res_mapper));
    same!("result::or_else!(closure)", result::or_else!(v, |e| { tick(); if e > b { Ok::<i64, i64>(e) } else { Err(b) } }), v.or_else(|e| { tick(); if e > b { Ok::<i64, i64>(e) } else { Err(b) } }));
    same!("result::or_else!(fn)", result::or_else!(v, res_mapper), v.or_else(res_mapper));
    same!("result::unwrap_or!(effectful arguments)", result::unwrap_or!({ at(1); v }, { at(2); b }), { at(1); v }.unwrap_or({ at(2); b }));
    same!("result::unwrap_or_else!(effectful subject)", result::unwrap_or_else!({ tick(); v }, mapper), { tick(); v }.unwrap_or_else(mapper));
    same!("result::ok!(effectful subject)", result::ok!({ tick(); v }), { tick(); v }.ok());
    same!("result::err!(effectful subject)", result::err!({ tick(); v }), { tick(); v }.err());
    same!("result::map!(effectful subject)", result::map!({ tick(); v }, mapper), { tick(); v }.map(mapper));
    same!("result::map_err!(effectful subject)", result::map_err!({ tick(); v }, mapper), { tick(); v }.map_err(mapper));
    same!("result::and_then!(effectful subject)", result::and_then!({ tick(); v }, res_mapper), { tick(); v }.and_then(res_mapper));
    same!("result::or_else!(effectful subject)", result::or_else!({ tick(); v }, res_mapper), { tick(); v }.or_else(res_mapper));
    Ok(())
}

fn try_k(r: Result<i64, i64>, b: i64) -> Result<i64, i64> {
    let x = try_!(r);
    tick();
    Ok(x.wrapping_add(b))
}
fn try_o(r: Result<i64, i64>, b: i64) -> Result<i64, i64> {
    let x = r?;
    tick();
    Ok(x.wrapping_add(b))
}
fn try_k_map(r: Result<i64, i64>, b: i64) -> Result<i64, String> {
    let x = try_!(r, map_err = |e| format!("E{e}/{b}"));
    tick();
    Ok(x.wrapping_add(b))
}
fn try_k_map_nopat(r: Result<i64, i64>, b: i64) -> Result<i64, String> {
    let x = try_!(r, map_err = | | format!("E/{b}"));
    tick();
    Ok(x.wrapping_add(b))
}
fn try_o_map(r: Result<i64, i64>, b: i64) -> Result<i64, String> {
    let x = r.map_err(|e| format!("E{e}/{b}"))?;
    tick();
    Ok(x.wrapping_add(b))
}
fn try_opt_k(o: Option<i64>, b: i64) -> Option<i64> {
    let x = try_opt!(o);
    tick();
    Some(x.wrapping_add(b))
}
fn try_opt_o(o: Option<i64>, b: i64) -> Option<i64> {
    let x = o?;
    tick();
    Some(x.wrapping_add(b))
}

// effectful operands: evaluated exactly once, like the operand of `?`
fn try_k_fx(r: Result<i64, i64>, b: i64) -> Result<i64, i64> {
    let x = try_!({ tick(); tick(); r });
    tick();
    Ok(x.wrapping_add(b))
}
fn try_o_fx(r: Result<i64, i64>, b: i64) -> Result<i64, i64> {
    let x = { tick(); tick(); r }?;
    tick();
    Ok(x.wrapping_add(b))
}
fn try_k_map_fx(r: Result<i64, i64>, b: i64) -> Result<i64, String> {
    let x = try_!({ tick(); tick(); r }, map_err = |e| { tick(); tick(); tick(); tick(); format!("E{e}/{b}") });
    tick();
    Ok(x.wrapping_add(b))
}
fn try_o_map_fx(r: Result<i64, i64>, b: i64) -> Result<i64, String> {
    let x = { tick(); tick(); r }.map_err(|e| { tick(); tick(); tick(); tick(); format!("E{e}/{b}") })?;
    tick();
    Ok(x.wrapping_add(b))
}
fn try_opt_k_fx(o: Option<i64>, b: i64) -> Option<i64> {
    let x = try_opt!({ tick(); tick(); o });
    tick();
    Some(x.wrapping_add(b))
}
fn try_opt_o_fx(o: Option<i64>, b: i64) -> Option<i64> {
    let x = { tick(); tick(); o }?;
    tick();
    Some(x.wrapping_add(b))
}

fn try_macros(pos: bool, a: i64, b: i64) -> Result<(), String> {
    let r: Result<i64, i64> = if pos { Ok(a) } else { Err(a) };
    same!("try_!", try_k(r, b), try_o(r, b));
    same!("try_!(map_err = |e| ..)", try_k_map(r, b), try_o_map(r, b));
    same!("try_!(map_err = || ..)", try_k_map_nopat(r, b), r.map_err(|_| format!("E/{b}")).map(|x| { tick(); x.wrapping_add(b) }));
    let o = if pos { Some(a) } else { None };
    same!("try_opt!", try_opt_k(o, b), try_opt_o(o, b));
    same!("try_!(effectful operand)", try_k_fx(r, b), try_o_fx(r, b));
    same!("try_!(effectful operand, counted map_err)", try_k_map_fx(r, b), try_o_map_fx(r, b));
    same!("try_opt!(effectful operand)", try_opt_k_fx(o, b), try_opt_o_fx(o, b));
    Ok(())
}

/// ordered by `key` only; `tag` tells the two arguments apart
#[derive(Debug, Clone, Copy)]
struct K {
    key: i64,
    tag: u8,
}
impl PartialEq for K {
    fn eq(&self, o: &K) -> bool {
        self.key == o.key
    }
}
impl Eq for K {}
impl PartialOrd for K {
    fn partial_cmp(&self, o: &K) -> Option<Ordering> {
        Some(self.cmp(o))
    }
}
impl Ord for K {
    fn cmp(&self, o: &K) -> Ordering {
        self.key.cmp(&o.key)
    }
}
konst::impl_cmp! {
    impl K;
    pub const fn const_eq(&self, other: &Self) -> bool {
        self.key == other.key
    }
    pub const fn const_cmp(&self, other: &Self) -> Ordering {
        konst::const_cmp!(self.key, other.key)
    }
}
fn key_of(k: &K) -> i64 {
    k.key
}
fn cmp_k(l: &K, r: &K) -> Ordering {
    l.key.cmp(&r.key)
}

fn minmax_keyed(a: i64, b: i64) -> Result<(), String> {
    let (l, r) = (K { key: a, tag: 1 }, K { key: b, tag: 2 });
    macro_rules! tagged {
        ($name:literal, $k:expr, $o:expr) => {{
            let (k, o): (K, K) = ($k, $o);
            ensure!(k.tag == o.tag && k.key == o.key, "{}(keys {a},{b}): konst returned argument #{} std argument #{}", $name, k.tag, o.tag);
        }};
    }
    tagged!("min!", min!(l, r), std::cmp::min(l, r));
    tagged!("max!", max!(l, r), std::cmp::max(l, r));
    tagged!("min_by!(closure)", min_by!(l, r, |x, y| konst::const_cmp!(x.key, y.key)), std::cmp::min_by(l, r, |x, y| x.key.cmp(&y.key)));
    tagged!("max_by!(closure)", max_by!(l, r, |x, y| konst::const_cmp!(x.key, y.key)), std::cmp::max_by(l, r, |x, y| x.key.cmp(&y.key)));
    tagged!("min_by!(fn)", min_by!(l, r, cmp_k), std::cmp::min_by(l, r, cmp_k));
    tagged!("max_by!(fn)", max_by!(l, r, cmp_k), std::cmp::max_by(l, r, cmp_k));
    // reversed comparator: argument order of the closure matters
    tagged!("min_by!(reversed)", min_by!(l, r, |x, y| konst::const_cmp!(y.key, x.key)), std::cmp::min_by(l, r, |x, y| y.key.cmp(&x.key)));
    tagged!("max_by!(reversed)", max_by!(l, r, |x, y| konst::const_cmp!(y.key, x.key)), std::cmp::max_by(l, r, |x, y| y.key.cmp(&x.key)));
    tagged!("min_by_key!(closure)", min_by_key!(l, r, |x| x.key), std::cmp::min_by_key(l, r, |x| x.key));
    tagged!("max_by_key!(closure)", max_by_key!(l, r, |x| x.key), std::cmp::max_by_key(l, r, |x| x.key));
    tagged!("min_by_key!(fn)", min_by_key!(l, r, key_of), std::cmp::min_by_key(l, r, key_of));
    tagged!("max_by_key!(fn)", max_by_key!(l, r, key_of), std::cmp::max_by_key(l, r, key_of));
    tagged!("min_by_key!(coarse key)", min_by_key!(l, r, |x| x.key / 2), std::cmp::min_by_key(l, r, |x| x.key / 2));
    tagged!("max_by_key!(coarse key)", max_by_key!(l, r, |x| x.key / 2), std::cmp::max_by_key(l, r, |x| x.key / 2));
    // argument expressions with an effect are evaluated exactly once each, and a key function is called once per
    // argument (as std::cmp's functions do)
    macro_rules! counted {
        ($name:literal, $k:expr, $o:expr) => {{
            calls();
            trace();
            let k: K = $k;
            let (kc, kt) = (calls(), trace());
            let o: K = $o;
            let (oc, ot) = (calls(), trace());
            // the order as well: `f(a, b)` evaluates `a` first, so with operands that share state (two `it.next()`
            // calls) a different order compares a different pair and returns a different argument
            ensure!(kt == ot, "{}(keys {a},{b}): konst evaluated its argument expressions in the order {} (std {})", $name, kt, ot);
            ensure!(k.tag == o.tag && k.key == o.key, "{}(keys {a},{b}): konst returned argument #{} std argument #{}", $name, k.tag, o.tag);
            ensure!(kc == oc, "{}(keys {a},{b}): konst evaluated its arguments / key function {} time(s), std {}", $name, kc, oc);
        }};
    }
    counted!("min!(effectful arguments)", min!({ at(1); l }, { at(2); r }), std::cmp::min({ at(1); l }, { at(2); r }));
    counted!("max!(effectful arguments)", max!({ at(1); l }, { at(2); r }), std::cmp::max({ at(1); l }, { at(2); r }));
    counted!("min_by!(effectful arguments)", min_by!({ at(1); l }, { at(2); r }, cmp_k), std::cmp::min_by({ at(1); l }, { at(2); r }, cmp_k));
    counted!("max_by!(effectful arguments)", max_by!({ at(1); l }, { at(2); r }, cmp_k), std::cmp::max_by({ at(1); l }, { at(2); r }, cmp_k));
    counted!("min_by_key!(counted key fn)", min_by_key!({ at(1); l }, { at(2); r }, |x| { tick(); tick(); tick(); tick(); x.key }), std::cmp::min_by_key({ at(1); l }, { at(2); r }, |x| { tick(); tick(); tick(); tick(); x.key }));
    counted!("max_by_key!(counted key fn)", max_by_key!({ at(1); l }, { at(2); r }, |x| { tick(); tick(); tick(); tick(); x.key }), std::cmp::max_by_key({ at(1); l }, { at(2); r }, |x| { tick(); tick(); tick(); tick(); x.key }));
    Ok(())
}

/// keys of compound kinds: Option<&[u32]>, &[u8], Option<&str>, &str (const_cmp! dispatches on the key type)
fn minmax_compound(a: i64, b: i64) -> Result<(), String> {
    const SLICES: [Option<&[u32]>; 8] = [None, Some(&[]), Some(&[0]), Some(&[7, 1]), Some(&[7, 200_000]), Some(&[7]), Some(&[u32::MAX]), Some(&[0, 0])];
    const STRS: [Option<&str>; 6] = [None, Some(""), Some("a"), Some("ab"), Some("b"), Some("a\0")];
    #[derive(Debug, Clone, Copy)]
    struct T {
        tags: Option<&'static [u32]>,
        name: Option<&'static str>,
        tag: u8,
    }
    let (i, j) = ((a.unsigned_abs() % 8) as usize, (b.unsigned_abs() % 8) as usize);
    let (l, r) = (T { tags: SLICES[i], name: STRS[i % 6], tag: 1 }, T { tags: SLICES[j], name: STRS[j % 6], tag: 2 });
    macro_rules! which {
        ($name:literal, $k:expr, $o:expr) => {{
            let (k, o): (T, T) = ($k, $o);
            ensure!(k.tag == o.tag, "{}(keys #{i}, #{j}): konst returned argument #{} std argument #{}", $name, k.tag, o.tag);
        }};
    }
    which!("min_by_key!(Option<&[u32]> key)", min_by_key!(l, r, |x| x.tags), std::cmp::min_by_key(l, r, |x| x.tags));
    which!("max_by_key!(Option<&[u32]> key)", max_by_key!(l, r, |x| x.tags), std::cmp::max_by_key(l, r, |x| x.tags));
    which!("min_by!(const_cmp! on Option<&[u32]>)", min_by!(l, r, |x, y| konst::const_cmp!(x.tags, y.tags)), std::cmp::min_by(l, r, |x, y| x.tags.cmp(&y.tags)));
    which!("max_by!(const_cmp! on Option<&[u32]>)", max_by!(l, r, |x, y| konst::const_cmp!(x.tags, y.tags)), std::cmp::max_by(l, r, |x, y| x.tags.cmp(&y.tags)));
    which!("min_by_key!(Option<&str> key)", min_by_key!(l, r, |x| x.name), std::cmp::min_by_key(l, r, |x| x.name));
    which!("max_by_key!(Option<&str> key)", max_by_key!(l, r, |x| x.name), std::cmp::max_by_key(l, r, |x| x.name));
    let (x, y) = (SLICES[i], SLICES[j]);
    ensure!(min!(x, y) == std::cmp::min(x, y) && max!(x, y) == std::cmp::max(x, y), "min!/max! on Option<&[u32]> {x:?},{y:?}: konst ({:?},{:?})", min!(x, y), max!(x, y));
    if let (Some(x), Some(y)) = (x, y) {
        ensure!(min!(x, y) == std::cmp::min(x, y) && max!(x, y) == std::cmp::max(x, y), "min!/max! on &[u32] {x:?},{y:?}");
    }
    let (x, y) = (STRS[i % 6], STRS[j % 6]);
    ensure!(min!(x, y) == std::cmp::min(x, y) && max!(x, y) == std::cmp::max(x, y), "min!/max! on Option<&str> {x:?},{y:?}");
    Ok(())
}

fn minmax_prim(a: i64, b: i64) -> Result<(), String> {
    macro_rules! prim {
        ($t:ty) => {{
            let (x, y) = (a as $t, b as $t);
            ensure!(min!(x, y) == std::cmp::min(x, y), "min!({x},{y}) [{}]", stringify!($t));
            ensure!(max!(x, y) == std::cmp::max(x, y), "max!({x},{y}) [{}]", stringify!($t));
        }};
    }
    prim!(u8);
    prim!(i8);
    prim!(u16);
    prim!(i32);
    prim!(u64);
    prim!(i64);
    prim!(i128);
    prim!(usize);
    let (x, y) = ((a & 1) == 1, (b & 1) == 1);
    ensure!(min!(x, y) == std::cmp::min(x, y) && max!(x, y) == std::cmp::max(x, y), "min!/max! on bool {x},{y}");
    let (x, y) = (char::from_u32((a as u32) % 0xD800).unwrap(), char::from_u32((b as u32) % 0xD800).unwrap());
    ensure!(min!(x, y) == std::cmp::min(x, y) && max!(x, y) == std::cmp::max(x, y), "min!/max! on char {x:?},{y:?}");
    let (sa, sb) = (a.to_string(), b.to_string());
    let (x, y): (&str, &str) = (&sa, &sb);
    ensure!(min!(x, y) == std::cmp::min(x, y) && max!(x, y) == std::cmp::max(x, y), "min!/max! on &str {x:?},{y:?}");
    Ok(())
}

/// A function-valued argument *expression* with an effect (`unwrap_or_else!(subject, mk2(fb))`): the method
/// call evaluates it whichever variant the subject has and only skips the call.  Values and call counts must agree;
/// when the only difference is that konst did not evaluate the expression on the variant that does not need the
/// function, the case is handed to the listed finding (after every comparison of this function has been made).
fn fn_expr_macros(vo: Option<i64>, vr: Result<i64, i64>, b: i64) -> Result<(), String> {
    ARG.with(|a| a.set(b));
    let mut skipped: Vec<&str> = Vec::new();
    macro_rules! fn_expr {
        ($name:literal, $needed:expr, $k:expr, $o:expr) => {{
            calls();
            trace();
            let k = $k;
            let (kc, kt) = (calls(), trace());
            let o = $o;
            let (oc, ot) = (calls(), trace());
            ensure!(k == o, "{}: konst {:?} std {:?}", $name, k, o);
            if (kc, kt) != (oc, ot) {
                // std: subject (1), function expression (2) [+ the call]; alternative model: no 2 when not needed
                ensure!(!$needed && ot == 12 && kt == 1 && kc + 1 == oc, "{}: konst evaluated its argument expressions in the order {} ({} ticks), the method call in the order {} ({} ticks)", $name, kt, kc, ot, oc);
                skipped.push($name);
            }
        }};
    }
    fn_expr!("option::unwrap_or_else!(function expression)", vo.is_none(), option::unwrap_or_else!({ at(1); vo }, mk2(fb)), { at(1); vo }.unwrap_or_else(mk2(fb)));
    fn_expr!("option::ok_or_else!(function expression)", vo.is_none(), option::ok_or_else!({ at(1); vo }, mk2(fb)), { at(1); vo }.ok_or_else(mk2(fb)));
    fn_expr!("result::unwrap_or_else!(function expression)", vr.is_err(), result::unwrap_or_else!({ at(1); vr }, mk2(|e: i64| { tick(); e.wrapping_sub(1) })), { at(1); vr }.unwrap_or_else(mk2(|e: i64| { tick(); e.wrapping_sub(1) })));
    fn_expr!("result::map!(function expression)", vr.is_ok(), result::map!({ at(1); vr }, mk2(mapper)), { at(1); vr }.map(mk2(mapper)));
    if skipped.is_empty() {
        Ok(())
    } else {
        Err(format!("FN_EXPR_SKIPPED {}: the function-valued argument expression was not evaluated (std evaluates it and only skips the call)", skipped.join(", ")))
    }
}

fn run_case(c: &Case) -> Result<(), String> {
    match c.group {
        0 => {
            option_macros(if c.pos { Some(c.a) } else { None }, c.b)?;
            option_macros_other_payloads(if c.pos { Some(c.a) } else { None }, c.b)?;
            fn_expr_macros(if c.pos { Some(c.a) } else { None }, if c.pos { Ok(c.a) } else { Err(c.a) }, c.b)
        }
        1 => result_macros(if c.pos { Ok(c.a) } else { Err(c.a) }, c.b),
        2 => try_macros(c.pos, c.a, c.b),
        3 => minmax_keyed(c.a, c.b),
        4 => minmax_prim(c.a, c.b),
        _ => minmax_compound(c.a, c.b),
    }
}

fn eval(ctx: &mut Ctx, c: Case) {
    ctx.case("std_equiv_macros", &c, |ctx| {
        let nt = match c.group {
            0 | 1 | 2 => !c.pos || [i64::MIN, i64::MAX, 0].contains(&c.a),
            3 => c.a == c.b || (c.a / 2 == c.b / 2),
            _ => c.a == c.b || c.a.abs_diff(c.b) == 1,
        };
        if c.group == 3 && c.a == c.b {
            ctx.label("equal_keys_distinct_tags");
        }
        if nt {
            ctx.nontrivial(["option", "result", "try", "minmax_keyed", "minmax_prim", "minmax_compound"][(c.group as usize).min(5)], &c, || json!(c));
        }
        routed(ctx, &c)
    });
}

/// run_case + attribution of the listed finding (its alternative model is checked inside fn_expr_macros)
fn routed(ctx: &mut Ctx, c: &Case) -> Result<(), String> {
    match run_case(c) {
        Err(m) if m.starts_with("FN_EXPR_SKIPPED") => {
            if ctx.known_hit("function-argument-expression-skipped-when-unused", || json!({"case": c, "message": m})) {
                Ok(())
            } else {
                Err(m)
            }
        }
        r => r,
    }
}

fn explore(ctx: &mut Ctx) {
    let vals = [0i64, 1, 2, 3, -1, -2, i64::MAX, i64::MIN, i64::MAX - 1, i64::MIN + 1, 255, 256, 65535, -128];
    for group in 0..3u8 {
        for pos in [true, false] {
            for &a in &vals {
                for &b in &vals {
                    eval(ctx, Case { group, pos, a, b });
                }
            }
        }
    }
    for &a in &vals {
        for &b in &vals {
            eval(ctx, Case { group: 3, pos: true, a, b });
            eval(ctx, Case { group: 4, pos: true, a, b });
        }
    }
    for a in 0..=3 {
        for b in 0..=3 {
            eval(ctx, Case { group: 3, pos: true, a, b });
        }
    }
    for a in 0..8 {
        for b in 0..8 {
            eval(ctx, Case { group: 5, pos: true, a, b });
        }
    }
    ctx.exhaustive_part("every option::/result:: macro x every argument form x {Some,None}/{Ok,Err} x 14x14 boundary payload pairs; try_!/try_opt! (3 forms); min/max families over all pairs of 14 boundary keys and keys 0..=3, on keyed values with tags, on 11 primitive types, and with compound keys (Option<&[u32]>, Option<&str>: all 8x8 pairs)");
    let n = ctx.by_tier(200_000, 3_000_000);
    let strat = (0u8..6, any::<bool>(), any::<i64>(), prop_oneof![any::<i64>(), Just(0i64), Just(1i64)]);
    ctx.prop("std_equiv_macros", n, strat, |ctx, &(group, pos, a, d)| {
        // half of the min/max cases get equal or adjacent keys
        let b = if group >= 3 && d.unsigned_abs() < 2 { a.wrapping_add(d) } else { d };
        let c = Case { group, pos, a, b };
        ctx.label("random");
        ctx.nontrivial("random", &c, || json!(c));
        routed(ctx, &c)
    });
}

fn main() {
    kvh::on_thread(real_main);
}

fn real_main() {
    let args = kvh::parse_args("C19", "c19");
    let mut ctx = Ctx::new(args.clone(), RULE);
    if let Some(p) = &args.replay {
        let (_check, case) = kvh::load_replay(p);
        let c: Case = match serde_json::from_value::<Case>(case.clone()) {
            Ok(c) => c,
            Err(_) => {
                let (group, pos, a, d): (u8, bool, i64, i64) = serde_json::from_value(case).expect("replay case");
                let b = if group >= 3 && d.unsigned_abs() < 2 { a.wrapping_add(d) } else { d };
                Case { group, pos, a, b }
            }
        };
        println!("replaying {:?}", c);
        ctx.case("std_equiv_macros", &c, |ctx| routed(ctx, &c));
    } else {
        explore(&mut ctx);
    }
    std::process::exit(ctx.finish());
}

//! C12 — integer/bool parsing accepts std's language and returns the same value.
use konst::parsing::{ParseDirection, ParseValueResult, Parser};
use konst::primitive as kp;
use kvh::Ctx;
use proptest::prelude::*;
use serde::{Deserialize, Serialize};
use serde_json::json;

const RULE: &str = "cases = (type, input string); whole-string oracle = str::parse::<T> with a leading '+' rejected (bool: str::parse::<bool>); parse_with!(parser, T) must equal Parser::parse_T in value, remainder, offsets and error; prefix oracle = reference scanner (optional '-' for signed types, longest ASCII-digit run, std parse of that run, overflow or no digit => Err with nothing consumed: error offset == parser start offset, direction FromStart; Ok => remainder == input after the run, offsets advanced by the run length), parser started with Parser::new and with_start_offset(_, 7); non-trivial = value within 2 of MIN/MAX or out of range, a sign/zero edge (-0, -, --1, +1, leading zeros), a non-ASCII digit, or a non-empty suffix after a number; distinct by (type,string)";

#[derive(Serialize, Deserialize, Debug, Clone, Copy, Hash, PartialEq, Eq)]
enum Ty {
    U8,
    I8,
    U16,
    I16,
    U32,
    I32,
    U64,
    I64,
    U128,
    I128,
    Usize,
    Isize,
    Bool,
}
const INT_TYPES: [Ty; 12] = [Ty::U8, Ty::I8, Ty::U16, Ty::I16, Ty::U32, Ty::I32, Ty::U64, Ty::I64, Ty::U128, Ty::I128, Ty::Usize, Ty::Isize];

#[derive(Serialize, Deserialize, Debug, Clone, Hash)]
pub struct Case {
    ty: Ty,
    s: String,
}

macro_rules! ensure {
    ($c:expr, $($fmt:tt)*) => { if !$c { return Err(format!($($fmt)*)); } };
}

/// reference scanner: (length of the numeric prefix, has a digit)
fn scan(s: &str, signed: bool) -> (usize, bool) {
    let b = s.as_bytes();
    let mut i = 0;
    if signed && b.first() == Some(&b'-') {
        i = 1;
    }
    let d0 = i;
    while i < b.len() && b[i].is_ascii_digit() {
        i += 1;
    }
    (i, i > d0)
}

fn check_int<T>(
    name: &str,
    s: &str,
    signed: bool,
    whole: fn(&str) -> Result<T, kp::ParseIntError>,
    prefix: for<'a> fn(Parser<'a>) -> ParseValueResult<'a, T>,
    with: for<'a> fn(Parser<'a>) -> ParseValueResult<'a, T>,
) -> Result<(), String>
where
    T: std::str::FromStr + PartialEq + std::fmt::Debug + Copy,
{
    // whole string
    let want: Option<T> = if s.starts_with('+') { None } else { s.parse::<T>().ok() };
    let got = whole(s).ok();
    ensure!(got == want, "primitive::parse_{name}({s:?}): konst {got:?} expected {want:?}");
    // prefix
    let (run, has_digit) = scan(s, signed);
    let want: Option<T> = if has_digit { s[..run].parse::<T>().ok() } else { None };
    for base in [0usize, 7] {
        let p = if base == 0 { Parser::new(s) } else { Parser::with_start_offset(s, base) };
        // parse_with!(parser, T) is the type-directed spelling of the same method
        let same = match (prefix(p), with(p)) {
            (Ok((v, n)), Ok((v2, n2))) => v == v2 && n.remainder().as_ptr() == n2.remainder().as_ptr() && n.remainder().len() == n2.remainder().len() && n.start_offset() == n2.start_offset() && n.parse_direction() == n2.parse_direction(),
            (Err(e), Err(e2)) => e == e2,
            _ => false,
        };
        ensure!(same, "parse_with!(parser, {name}) on {s:?} (base {base}) differs from Parser::parse_{name}: {:?} vs {:?}", with(p).map(|(v, n)| (v, n.remainder().to_string())).map_err(|e| e.to_string()), prefix(p).map(|(v, n)| (v, n.remainder().to_string())).map_err(|e| e.to_string()));
        match (prefix(p), want) {
            (Ok((v, np)), Some(w)) => {
                ensure!(v == w, "Parser::parse_{name} on {s:?}: konst {v:?} expected {w:?}");
                let rem = np.remainder();
                ensure!(
                    rem.len() == s.len() - run && (rem.is_empty() || rem.as_ptr() == s[run..].as_ptr()),
                    "Parser::parse_{name} on {s:?}: remainder {rem:?} expected {:?}",
                    &s[run..]
                );
                ensure!(
                    np.start_offset() == base + run && np.end_offset() == base + s.len(),
                    "Parser::parse_{name} on {s:?} (base {base}): offsets {}..{} expected {}..{}",
                    np.start_offset(),
                    np.end_offset(),
                    base + run,
                    base + s.len()
                );
            }
            (Err(e), None) => {
                ensure!(
                    e.offset() == base && e.error_direction() == ParseDirection::FromStart,
                    "Parser::parse_{name} on {s:?} (base {base}): error offset {} direction {:?}, expected {base} FromStart",
                    e.offset(),
                    e.error_direction()
                );
            }
            (Ok((v, np)), None) => return Err(format!("Parser::parse_{name} on {s:?}: konst Ok({v:?}, rem {:?}) expected Err", np.remainder())),
            (Err(_), Some(w)) => return Err(format!("Parser::parse_{name} on {s:?}: konst Err expected Ok({w:?}, rem {:?})", &s[run..])),
        }
    }
    Ok(())
}

fn check_bool(s: &str) -> Result<(), String> {
    let want = s.parse::<bool>().ok();
    let got = kp::parse_bool(s).ok();
    ensure!(got == want, "primitive::parse_bool({s:?}): konst {got:?} std {want:?}");
    let (a, b) = (Parser::new(s).parse_bool(), konst::parse_with!(Parser::new(s), bool));
    ensure!(a.as_ref().map(|(v, n)| (*v, n.remainder(), n.start_offset())).map_err(|e| e.copy()) == b.as_ref().map(|(v, n)| (*v, n.remainder(), n.start_offset())).map_err(|e| e.copy()), "parse_with!(parser, bool) on {s:?} differs from Parser::parse_bool");
    let want = if s.starts_with("true") {
        Some((true, 4))
    } else if s.starts_with("false") {
        Some((false, 5))
    } else {
        None
    };
    for base in [0usize, 7] {
        let p = if base == 0 { Parser::new(s) } else { Parser::with_start_offset(s, base) };
        match (p.parse_bool(), want) {
            (Ok((v, np)), Some((w, n))) => {
                ensure!(v == w && np.remainder() == &s[n..] && np.start_offset() == base + n, "Parser::parse_bool on {s:?}: konst ({v}, {:?}, start {})", np.remainder(), np.start_offset());
            }
            (Err(e), None) => {
                ensure!(e.offset() == base && e.error_direction() == ParseDirection::FromStart, "Parser::parse_bool on {s:?}: error offset {} direction {:?}", e.offset(), e.error_direction());
            }
            (Ok((v, _)), None) => return Err(format!("Parser::parse_bool on {s:?}: konst Ok({v}) expected Err")),
            (Err(_), Some(w)) => return Err(format!("Parser::parse_bool on {s:?}: konst Err expected {w:?}")),
        }
    }
    Ok(())
}

pub fn run_case(c: &Case) -> Result<(), String> {
    let s = c.s.as_str();
    match c.ty {
        Ty::U8 => check_int::<u8>("u8", s, false, kp::parse_u8, |p| p.parse_u8(), |p| konst::parse_with!(p, u8)),
        Ty::I8 => check_int::<i8>("i8", s, true, kp::parse_i8, |p| p.parse_i8(), |p| konst::parse_with!(p, i8)),
        Ty::U16 => check_int::<u16>("u16", s, false, kp::parse_u16, |p| p.parse_u16(), |p| konst::parse_with!(p, u16)),
        Ty::I16 => check_int::<i16>("i16", s, true, kp::parse_i16, |p| p.parse_i16(), |p| konst::parse_with!(p, i16)),
        Ty::U32 => check_int::<u32>("u32", s, false, kp::parse_u32, |p| p.parse_u32(), |p| konst::parse_with!(p, u32)),
        Ty::I32 => check_int::<i32>("i32", s, true, kp::parse_i32, |p| p.parse_i32(), |p| konst::parse_with!(p, i32)),
        Ty::U64 => check_int::<u64>("u64", s, false, kp::parse_u64, |p| p.parse_u64(), |p| konst::parse_with!(p, u64)),
        Ty::I64 => check_int::<i64>("i64", s, true, kp::parse_i64, |p| p.parse_i64(), |p| konst::parse_with!(p, i64)),
        Ty::U128 => check_int::<u128>("u128", s, false, kp::parse_u128, |p| p.parse_u128(), |p| konst::parse_with!(p, u128)),
        Ty::I128 => check_int::<i128>("i128", s, true, kp::parse_i128, |p| p.parse_i128(), |p| konst::parse_with!(p, i128)),
        Ty::Usize => check_int::<usize>("usize", s, false, kp::parse_usize, |p| p.parse_usize(), |p| konst::parse_with!(p, usize)),
        Ty::Isize => check_int::<isize>("isize", s, true, kp::parse_isize, |p| p.parse_isize(), |p| konst::parse_with!(p, isize)),
        Ty::Bool => check_bool(s),
    }
}

fn bounds(ty: Ty) -> (String, String) {
    macro_rules! b {
        ($t:ty) => {
            (<$t>::MIN.to_string(), <$t>::MAX.to_string())
        };
    }
    match ty {
        Ty::U8 => b!(u8),
        Ty::I8 => b!(i8),
        Ty::U16 => b!(u16),
        Ty::I16 => b!(i16),
        Ty::U32 => b!(u32),
        Ty::I32 => b!(i32),
        Ty::U64 => b!(u64),
        Ty::I64 => b!(i64),
        Ty::U128 => b!(u128),
        Ty::I128 => b!(i128),
        Ty::Usize => b!(usize),
        Ty::Isize => b!(isize),
        Ty::Bool => ("0".into(), "1".into()),
    }
}

/// decimal string arithmetic: s + delta for small |delta| (s may be negative)
fn dec_add(s: &str, delta: i64) -> String {
    let neg = s.starts_with('-');
    let mag: Vec<u8> = s.trim_start_matches('-').bytes().map(|b| b - b'0').collect();
    let d = if neg { -delta } else { delta };
    // magnitude +/- |d|
    let (mag, flipped) = if d >= 0 { (mag_add(&mag, d as u64), false) } else { mag_sub(&mag, (-d) as u64) };
    let digits: String = mag.iter().map(|d| (d + b'0') as char).collect();
    let digits = digits.trim_start_matches('0');
    let digits = if digits.is_empty() { "0" } else { digits };
    let neg = neg ^ flipped;
    if neg && digits != "0" {
        format!("-{digits}")
    } else {
        digits.to_string()
    }
}
/// decimal string * 2
fn dec_double(s: &str) -> String {
    let mut out: Vec<u8> = Vec::with_capacity(s.len() + 1);
    let mut carry = 0u8;
    for b in s.bytes().rev() {
        let t = (b - b'0') * 2 + carry;
        out.push(b'0' + t % 10);
        carry = t / 10;
    }
    if carry > 0 {
        out.push(b'0' + carry);
    }
    out.reverse();
    String::from_utf8(out).unwrap()
}
fn mag_add(m: &[u8], mut d: u64) -> Vec<u8> {
    let mut v = m.to_vec();
    let mut i = v.len();
    while d > 0 {
        if i == 0 {
            v.insert(0, 0);
            i = 1;
        }
        i -= 1;
        let t = v[i] as u64 + d % 10;
        v[i] = (t % 10) as u8;
        d = d / 10 + t / 10;
    }
    v
}
/// m - d; if negative returns (d - m, true)
fn mag_sub(m: &[u8], d: u64) -> (Vec<u8>, bool) {
    if m.len() <= 19 {
        let mv: u64 = m.iter().fold(0u64, |a, x| a * 10 + *x as u64);
        if mv < d {
            let r = d - mv;
            return (r.to_string().bytes().map(|b| b - b'0').collect(), true);
        }
    }
    let mut v = m.to_vec();
    let mut borrow = d;
    let mut i = v.len();
    while borrow > 0 && i > 0 {
        i -= 1;
        let sub = borrow % 10;
        borrow /= 10;
        if (v[i] as u64) >= sub {
            v[i] -= sub as u8;
        } else {
            v[i] = (v[i] as u64 + 10 - sub) as u8;
            borrow += 1;
        }
    }
    (v, false)
}

fn is_nontrivial(ty: Ty, s: &str) -> bool {
    if ty == Ty::Bool {
        return s.starts_with('t') || s.starts_with('f');
    }
    let signed = matches!(ty, Ty::I8 | Ty::I16 | Ty::I32 | Ty::I64 | Ty::I128 | Ty::Isize);
    let (run, has_digit) = scan(s, signed);
    let (mn, mx) = bounds(ty);
    let num = &s[..run];
    let near = has_digit && {
        let t = num.trim_start_matches('-').trim_start_matches('0');
        let t = if t.is_empty() { "0" } else { t };
        let norm = if num.starts_with('-') && t != "0" { format!("-{t}") } else { t.to_string() };
        (-3..=3).any(|d| dec_add(&mn, d) == norm || dec_add(&mx, d) == norm) || norm.len() > mx.len()
    };
    let sign_edge = s.starts_with('+') || s.starts_with("--") || s == "-" || s.starts_with("-0") || (has_digit && num.trim_start_matches('-').starts_with('0') && num.trim_start_matches('-').len() > 1);
    let suffix = has_digit && run < s.len();
    let non_ascii = !s.is_ascii();
    near || sign_edge || suffix || non_ascii
}

fn eval(ctx: &mut Ctx, ty: Ty, s: &str) {
    let c = Case { ty, s: s.to_string() };
    ctx.case("parse", &c, |ctx| {
        if is_nontrivial(ty, s) {
            ctx.nontrivial(&format!("{ty:?}"), &c, || json!(c));
        }
        if s.starts_with('+') {
            ctx.label("leading_plus");
        }
        run_case(&c)
    });
}

const SUFFIXES: [&str; 6] = ["", "x", " 1", "-", "٣", "9"];

fn with_suffixes(ctx: &mut Ctx, ty: Ty, s: &str) {
    for suf in SUFFIXES {
        eval(ctx, ty, &format!("{s}{suf}"));
    }
}

fn explore(ctx: &mut Ctx) {
    // (a) every value of the 8/16-bit types in several spellings
    for v in i32::from(i16::MIN) - 3..=i32::from(u16::MAX) + 3 {
        let plain = v.to_string();
        let mag = plain.trim_start_matches('-');
        let sign = if v < 0 { "-" } else { "" };
        let spellings = [plain.clone(), format!("{sign}0{mag}"), format!("{sign}000{mag}"), format!("-{mag}")];
        for ty in [Ty::U8, Ty::I8, Ty::U16, Ty::I16] {
            let (mn, mx) = bounds(ty);
            let (mn, mx): (i32, i32) = (mn.parse().unwrap(), mx.parse().unwrap());
            // stay within a margin of the type's range (beyond it, one representative per 97)
            if v < mn - 300 || v > mx + 300 {
                if v % 97 != 0 {
                    continue;
                }
            }
            for (i, sp) in spellings.iter().enumerate() {
                if i == 0 {
                    with_suffixes(ctx, ty, sp);
                } else {
                    eval(ctx, ty, sp);
                }
            }
        }
        if ctx.too_many() {
            return;
        }
    }
    ctx.exhaustive_part("every value of u8,i8,u16,i16 (+-300 beyond the range, sparse further out) spelled plain (x6 suffixes), with 1 and 3 leading zeros, and negated");
    // (b) all short strings over the parse alphabet, all 13 types
    let l = ctx.by_tier(4, 5);
    let alpha = ["0", "1", "9", "-", "+", "a", " ", "٣"];
    let strs = kvh::gen::strings(&alpha, l);
    for s in &strs {
        for ty in INT_TYPES {
            eval(ctx, ty, s);
        }
        eval(ctx, Ty::Bool, s);
        if ctx.too_many() {
            return;
        }
    }
    ctx.exhaustive_part(&format!("all strings of 0..={l} symbols over {{0,1,9,-,+,a,' ',٣}} x 12 integer types + bool"));
    // NUL and other bytes below '0' / above '9' next to digits (sentinel-style scanners)
    for core in ["", "0", "7", "12", "-1", "255", "true", "false"] {
        for x in ["\0", "/", ":", "\u{7f}", "\u{80}", "０"] {
            for s in [format!("{core}{x}"), format!("{x}{core}"), format!("{core}{x}{core}")] {
                for ty in INT_TYPES {
                    eval(ctx, ty, &s);
                }
                eval(ctx, Ty::Bool, &s);
            }
        }
    }
    for c in kvh::gen::SPECIAL_CHARS {
        for core in ["7", "-12", "true"] {
            for s in [format!("{c}{core}"), format!("{core}{c}"), format!("{c}")] {
                for ty in INT_TYPES {
                    eval(ctx, ty, &s);
                }
                eval(ctx, Ty::Bool, &s);
            }
        }
    }
    ctx.exhaustive_part("16 special chars (BOM, Unicode white space ...) around 3 cores; 8 cores x {NUL, '/', ':', DEL, U+0080, fullwidth zero} before / after / between, all types");
    // (c) neighbourhoods of MIN / MAX for every integer type
    for ty in INT_TYPES {
        let (mn, mx) = bounds(ty);
        for base in [&mn, &mx] {
            for d in -12..=12 {
                let v = dec_add(base, d);
                with_suffixes(ctx, ty, &v);
                let (sign, mag) = if let Some(m) = v.strip_prefix('-') { ("-", m) } else { ("", v.as_str()) };
                eval(ctx, ty, &format!("{sign}{}{mag}", "0".repeat(30)));
                eval(ctx, ty, &format!("{sign}0{mag}"));
                eval(ctx, ty, &format!("+{v}"));
                eval(ctx, ty, &format!("-{v}"));
                // one extra digit, each digit value
                for extra in 0..10 {
                    eval(ctx, ty, &format!("{v}{extra}"));
                }
                // one digit changed at each position (keeps length: overflow in the middle of the run)
                if d == 0 {
                    let bytes = v.as_bytes();
                    for pos in 0..bytes.len() {
                        if bytes[pos].is_ascii_digit() {
                            for nd in [b'0', b'9'] {
                                let mut w = bytes.to_vec();
                                w[pos] = nd;
                                eval(ctx, ty, std::str::from_utf8(&w).unwrap());
                            }
                        }
                    }
                }
            }
        }
    }
    ctx.exhaustive_part("every integer type: MIN-12..=MIN+12 and MAX-12..=MAX+12 as decimal strings x 6 suffixes, 30 leading zeros, leading '+', extra '-', one extra digit (0-9), single-digit substitutions of MIN/MAX");
    // (c2) cross-type boundaries: the neighbourhood of every power of two (2^k - 3 ..= 2^k + 3, k = 1..=128, incl. the
    // MIN/MAX of every *narrower* type) and of every power of ten, fed to every integer type, positive and negated
    {
        let mut bases: Vec<String> = Vec::new();
        let mut p2 = String::from("1");
        for _k in 1..=128 {
            p2 = dec_double(&p2);
            bases.push(p2.clone());
        }
        let mut p10 = String::from("1");
        for _k in 1..=39 {
            p10.push('0');
            bases.push(p10.clone());
        }
        for b in &bases {
            for d in -3..=3 {
                let v = dec_add(b, d);
                for ty in INT_TYPES {
                    eval(ctx, ty, &v);
                    eval(ctx, ty, &format!("-{v}"));
                    eval(ctx, ty, &format!("{v}x"));
                }
            }
        }
    }
    ctx.exhaustive_part("cross-type boundaries: 2^k-3..=2^k+3 (k=1..=128) and 10^k-3..=10^k+3 (k=1..=39), plain / negated / with a suffix, for all 12 integer types");
    // (d) bool shapes
    for b in ["true", "false", "tru", "fals", "truee", "falsey", "True", "FALSE", " true", "true ", "", "t", "f", "truefalse", "falsetrue", "٣true"] {
        with_suffixes(ctx, Ty::Bool, b);
    }
    ctx.exhaustive_part("16 bool shapes x 6 suffixes");
    // (e) random: digit strings of random length with optional sign / junk
    let n = ctx.by_tier(100_000, 3_000_000);
    let strat = (0usize..13, proptest::collection::vec(0usize..14, 0..45));
    ctx.prop("parse", n, strat, |ctx, (t, syms)| {
        let c = fold_case(*t, syms);
        ctx.label("random");
        if is_nontrivial(c.ty, &c.s) {
            ctx.nontrivial("random", &c, || json!(c));
        }
        run_case(&c)
    });
}

pub fn fold_case(t: usize, syms: &[usize]) -> Case {
    const SYM: [&str; 14] = ["0", "1", "2", "3", "4", "5", "6", "7", "8", "9", "-", "+", "x", "٣"];
    // digits dominate: indices 10.. only appear when drawn
    let ty = if t == 12 { Ty::Bool } else { INT_TYPES[t] };
    let s: String = syms.iter().map(|&i| SYM[i]).collect();
    let s = if ty == Ty::Bool {
        let tail: String = s.chars().take(3).collect();
        format!("{}{}", if syms.len() % 2 == 0 { "true" } else { "false" }, tail)
    } else {
        s
    };
    Case { ty, s }
}

fn main() {
    kvh::on_thread(real_main);
}

fn real_main() {
    let args = kvh::parse_args("C12", "c12");
    let mut ctx = Ctx::new(args.clone(), RULE);
    if let Some(p) = &args.replay {
        let (_check, case) = kvh::load_replay(p);
        let c: Case = match serde_json::from_value::<Case>(case.clone()) {
            Ok(c) => c,
            Err(_) => {
                let (t, syms): (usize, Vec<usize>) = serde_json::from_value(case).expect("replay case");
                fold_case(t, &syms)
            }
        };
        println!("replaying {:?}", c);
        ctx.case("parse", &c, |_| run_case(&c));
    } else {
        explore(&mut ctx);
    }
    std::process::exit(ctx.finish());
}

//! C11 — array-building macros return fully initialised arrays equal to std's (in-process half).
//! C15 — by-value array APIs move out every element exactly once (in-process half).
//! One engine: scenarios over ArrayBuilder / ArrayConsumer / map!/map_!/from_fn!/from_fn_!/collect_const!
//! with a drop-ledger element type; `--property` selects which oracle's failures are reported.
//! `--mode miri` runs a compact deterministic subset (used under `cargo miri run`).
use konst::array::{self, ArrayBuilder, ArrayConsumer};
use kvh::{catch, Ctx};
use proptest::prelude::*;
use serde::{Deserialize, Serialize};
use serde_json::json;
use std::cell::{Cell, RefCell};
use std::collections::HashMap;
use std::mem::ManuallyDrop;

const RULE11: &str = "cases = (array length N in 0..=6, element type u32|String|ledger-tracked, macro or builder operation history); C11 oracle: array::map!/map_! == <[T;N]>::map, from_fn!/from_fn_! == core::array::from_fn (typed and untyped forms), collect_const! == Iterator::collect on the same chain, ArrayBuilder::build returns exactly the pushed values in push order, as_slice()/len()/is_full() describe the pushed prefix, every element of every returned array carries the magic stamp of a live value (no unwritten slot), over-push and under-filled build() panic; non-trivial = N >= 2 with a non-Copy element, or a builder history containing a misuse (over-push / early build) or a clone; distinct by the whole case";
const RULE15: &str = "cases = (array length N in 0..=5, operation history on ArrayConsumer / ArrayBuilder / map_!/from_fn_! over a ledger-tracked Drop type); C15 oracle: a thread-local ledger id -> drop count; when a scenario runs to completion every created id has been dropped exactly once (by konst or by the owner it was handed to), nothing reachable through as_slice() has been dropped, elements arrive in original order with id and payload unchanged, clone() creates fresh ids; on panicking paths (closure panic inside map_!, over-push, early build) no id is dropped twice (leaks are documented there); non-trivial = history with both a front and a back take plus a clone or an early drop, or a map_! closure panicking at 0<k<N; distinct by the whole case";

const MAGIC: u64 = 0x5AFE_C0DE_D00D_F00D;
thread_local! {
    /// --property C01: report the failures of both oracles (any of them is a memory-safety symptom)
    static ALL: std::cell::Cell<bool> = const { std::cell::Cell::new(false) };
}

#[derive(Default)]
struct Ledger {
    next: u32,
    /// id -> (drops, payload)
    ids: HashMap<u32, (u32, u64)>,
    errors: Vec<String>,
}
thread_local! {
    static LEDGER: RefCell<Ledger> = RefCell::new(Ledger::default());
    /// Tracked::clone panics when this counter, decremented on every clone, reaches zero (negative = off)
    static CLONE_FUSE: std::cell::Cell<i64> = const { std::cell::Cell::new(-1) };
}
fn ledger_reset() {
    LEDGER.with(|l| *l.borrow_mut() = Ledger::default());
}
fn ledger_err(e: String) {
    LEDGER.with(|l| l.borrow_mut().errors.push(e));
}

#[derive(Debug)]
struct Tracked {
    magic: u64,
    id: u32,
    payload: u64,
}
impl Tracked {
    fn new(payload: u64) -> Tracked {
        LEDGER.with(|l| {
            let mut l = l.borrow_mut();
            let id = l.next;
            l.next += 1;
            l.ids.insert(id, (0, payload));
            Tracked { magic: MAGIC, id, payload }
        })
    }
    /// reads the value, recording an error if it is not a live, intact value
    fn check(&self, what: &str) -> u64 {
        if self.magic != MAGIC {
            ledger_err(format!("VAL: {what}: element without the magic stamp (unwritten or corrupted slot): {:#x}", self.magic));
            return 0;
        }
        LEDGER.with(|l| match l.borrow().ids.get(&self.id) {
            Some((0, p)) if *p == self.payload => {}
            Some((0, p)) => ledger_err(format!("OWN: {what}: id {} payload changed {} -> {}", self.id, p, self.payload)),
            Some((n, _)) => ledger_err(format!("OWN: {what}: id {} is reachable but was already dropped {n} time(s)", self.id)),
            None => ledger_err(format!("VAL: {what}: unknown id {}", self.id)),
        });
        self.payload
    }
}
impl Clone for Tracked {
    fn clone(&self) -> Tracked {
        self.check("clone source");
        let fire = CLONE_FUSE.with(|f| {
            let v = f.get();
            if v >= 0 {
                f.set(v - 1);
            }
            v == 0
        });
        if fire {
            panic!("Tracked::clone fuse");
        }
        Tracked::new(self.payload)
    }
}
impl Drop for Tracked {
    fn drop(&mut self) {
        if self.magic != MAGIC {
            ledger_err(format!("VAL: drop of a value without the magic stamp: {:#x}", self.magic));
            return;
        }
        LEDGER.with(|l| {
            let mut l = l.borrow_mut();
            match l.ids.get_mut(&self.id) {
                Some(e) => {
                    e.0 += 1;
                    if e.0 > 1 {
                        let n = e.0;
                        l.errors.push(format!("OWN: id {} dropped {} times", self.id, n));
                    }
                }
                None => l.errors.push(format!("VAL: drop of unknown id {}", self.id)),
            }
        });
        self.magic = 0xDEAD_DEAD_DEAD_DEAD;
    }
}

/// end-of-scenario verdict; `complete`: the scenario ran to completion (no panicking path)
fn ledger_verdict(complete: bool) -> Vec<String> {
    LEDGER.with(|l| {
        let l = l.borrow();
        let mut e = l.errors.clone();
        if complete {
            let mut leaked: Vec<u32> = l.ids.iter().filter(|(_, v)| v.0 == 0).map(|(k, _)| *k).collect();
            leaked.sort();
            if !leaked.is_empty() {
                e.push(format!("OWN: ids never dropped on a path that ran to completion: {leaked:?}"));
            }
        }
        e
    })
}

/// zero-sized element type with a destructor: cannot carry an id, so drops are counted
struct Token;
thread_local! {
    static TOKEN_DROPS: std::cell::Cell<u32> = const { std::cell::Cell::new(0) };
}
impl Drop for Token {
    fn drop(&mut self) {
        TOKEN_DROPS.with(|t| t.set(t.get() + 1));
    }
}
impl Clone for Token {
    fn clone(&self) -> Token {
        Token
    }
}

#[derive(Serialize, Deserialize, Debug, Clone, Hash, PartialEq)]
enum COp {
    Next { keep: bool },
    NextBack { keep: bool },
    AsSlice,
    Swap(usize, usize),
    /// clone the current consumer; the clone becomes current, the original is parked
    Clone,
    /// clone while the element type's Clone panics on the k-th element: the half-built clone is dropped
    /// during unwinding, the original must stay intact
    ClonePanic(usize),
    /// drop the current consumer, continue with a parked one (if any)
    DropNow,
    AssertIsEmpty,
}
#[derive(Serialize, Deserialize, Debug, Clone, Hash, PartialEq)]
enum BOp {
    Push,
    AsSlice,
    Write(usize),
    Clone,
    ClonePanic(usize),
    Build,
    DropNow,
    LenIsFull,
}
#[derive(Serialize, Deserialize, Debug, Clone, Hash)]
enum Case {
    Consumer { n: usize, ops: Vec<COp> },
    Builder { n: usize, ops: Vec<BOp> },
    /// map_! over [Tracked; n], closure panics at element `panic_at` (if < n)
    MapByVal { n: usize, panic_at: usize },
    FromFnByVal { n: usize, panic_at: usize },
    /// map!/from_fn!/map_!/from_fn_!/collect_const! value checks for element kind 0=u32 1=String 2=Tracked
    Values { n: usize, kind: u8 },
    /// value checks of all four macros at a large length (index into [16, 17, 33, 64, 100])
    ValuesBig { which: usize },
    /// zero-sized Drop elements: take `front`/`back` from a consumer of n tokens (dropping what was taken),
    /// `clones` clones, push `pushed` tokens into a builder, map_! the rest: every token dropped exactly once
    Zst { n: usize, front: usize, back: usize, clones: usize, pushed: usize },
    /// Clone::clone_from (a trait method a type may override) on a builder / consumer of capacity n: the destination
    /// holds `dst` elements, the source `src`; contents afterwards equal the source's, every element of the old
    /// destination is dropped exactly once
    CloneFrom { n: usize, dst: usize, src: usize, consumer: bool },
    /// element types whose alignment exceeds a machine word (u128, a 32-byte-aligned struct with a destructor): builder
    /// filled to `pushed`, as_slice after every push, build / early drop, consumer taken from both ends, map_!/from_fn_!
    Aligned { n: usize, pushed: usize },
}

macro_rules! ensure {
    ($c:expr, $($fmt:tt)*) => { if !$c { return Err(format!($($fmt)*)); } };
}

/// lengths beyond the const-generic dispatch table of the histories: value checks only
fn values_big<const N: usize>() -> Result<bool, String> {
    let r = values::<N>(0)?;
    let _ = values::<N>(1)?;
    let _ = values::<N>(2)?;
    Ok(r)
}

macro_rules! with_n {
    ($n:expr, $f:ident $(, $arg:expr)*) => {
        match $n {
            0 => $f::<0>($($arg),*),
            1 => $f::<1>($($arg),*),
            2 => $f::<2>($($arg),*),
            3 => $f::<3>($($arg),*),
            4 => $f::<4>($($arg),*),
            5 => $f::<5>($($arg),*),
            _ => $f::<6>($($arg),*),
        }
    };
}

// ---------------------------------------------------------------- consumer histories
fn consumer_run<const N: usize>(ops: &[COp]) -> Result<bool, String> {
    let arr: [Tracked; N] = std::array::from_fn(|i| Tracked::new(100 + i as u64));
    let ids: Vec<(u32, u64)> = arr.iter().map(|t| (t.id, t.payload)).collect();
    // stack of (consumer, model of remaining (id?, payload)); clones have fresh ids => model keeps payload only + Option<id>
    let mut stack: Vec<(ArrayConsumer<Tracked, N>, std::collections::VecDeque<(Option<u32>, u64)>)> = Vec::new();
    stack.push((ArrayConsumer::new(arr), ids.iter().map(|&(i, p)| (Some(i), p)).collect()));
    let mut kept: Vec<Tracked> = Vec::new();
    let mut complete = true;
    for (i, op) in ops.iter().enumerate() {
        let Some((cons, model)) = stack.last_mut() else { break };
        match op {
            COp::Next { keep } | COp::NextBack { keep } => {
                let front = matches!(op, COp::Next { .. });
                let got = if front { cons.next() } else { cons.next_back() };
                let want = if front { model.pop_front() } else { model.pop_back() };
                ensure!(got.is_some() == want.is_some(), "VAL: op {i} {op:?}: returned {} but {} elements remain", if got.is_some() { "Some" } else { "None" }, model.len() + want.is_some() as usize);
                if let (Some(g), Some((wid, wp))) = (got, want) {
                    let t = ManuallyDrop::into_inner(g);
                    let p = t.check("taken element");
                    ensure!(p == wp && wid.map_or(true, |w| w == t.id), "OWN: op {i} {op:?}: got id {} payload {p}, expected id {wid:?} payload {wp}", t.id);
                    if *keep {
                        kept.push(t);
                    } else {
                        drop(t);
                    }
                }
            }
            COp::AsSlice => {
                let s = cons.as_slice();
                ensure!(s.len() == model.len(), "VAL: op {i} as_slice().len() = {} expected {}", s.len(), model.len());
                for (t, (wid, wp)) in s.iter().zip(model.iter()) {
                    let p = t.check("as_slice element");
                    ensure!(p == *wp && wid.map_or(true, |w| w == t.id), "OWN: op {i} as_slice(): element id {} payload {p}, expected {wid:?}/{wp}", t.id);
                }
            }
            COp::Swap(a, b) => {
                let s = cons.as_mut_slice();
                ensure!(s.len() == model.len(), "VAL: op {i} as_mut_slice().len() = {} expected {}", s.len(), model.len());
                if !s.is_empty() {
                    let (a, b) = (a % s.len(), b % s.len());
                    s.swap(a, b);
                    model.swap(a, b);
                }
            }
            COp::Clone => {
                let c2 = cons.clone();
                let m2: std::collections::VecDeque<(Option<u32>, u64)> = model.iter().map(|&(_, p)| (None, p)).collect();
                stack.push((c2, m2));
            }
            COp::ClonePanic(k) => {
                let will_panic = *k < model.len();
                CLONE_FUSE.with(|f| f.set(*k as i64));
                let r = catch(|| cons.clone());
                CLONE_FUSE.with(|f| f.set(-1));
                ensure!(r.is_err() == will_panic, "VAL: op {i} clone with a panicking element clone at {k}: panicked={} expected {will_panic}", r.is_err());
                if let Ok(c2) = r {
                    let m2: std::collections::VecDeque<(Option<u32>, u64)> = model.iter().map(|&(_, p)| (None, p)).collect();
                    stack.push((c2, m2));
                } else {
                    complete = false; // the clones made before the panic may be leaked or dropped, never dropped twice
                }
            }
            COp::DropNow => {
                let (c, _) = stack.pop().unwrap();
                drop(c);
            }
            COp::AssertIsEmpty => {
                let (c, m) = stack.pop().unwrap();
                if m.is_empty() {
                    c.assert_is_empty();
                } else {
                    let r = catch(move || c.assert_is_empty());
                    ensure!(r.is_err(), "VAL: op {i} assert_is_empty() on a consumer with {} elements did not panic", m.len());
                    complete = false; // the consumer was moved into the panicking call: leak-or-drop is unspecified
                }
            }
        }
    }
    drop(stack);
    drop(kept);
    Ok(complete)
}

// ---------------------------------------------------------------- builder histories
fn builder_run<const N: usize>(ops: &[BOp]) -> Result<bool, String> {
    let mut stack: Vec<(ArrayBuilder<Tracked, N>, Vec<(Option<u32>, u64)>)> = vec![(ArrayBuilder::new(), Vec::new())];
    let mut built: Vec<[Tracked; N]> = Vec::new();
    let mut complete = true;
    let mut next_payload = 500u64;
    for (i, op) in ops.iter().enumerate() {
        let Some((b, model)) = stack.last_mut() else { break };
        match op {
            BOp::Push => {
                next_payload += 1;
                let t = Tracked::new(next_payload);
                let (id, p) = (t.id, t.payload);
                if model.len() < N {
                    b.push(t);
                    model.push((Some(id), p));
                } else {
                    let r = catch(|| b.push(t));
                    ensure!(r.is_err(), "VAL: op {i} push on a full builder (N={N}) did not panic");
                    complete = false;
                }
            }
            BOp::AsSlice => {
                let s = b.as_slice();
                ensure!(s.len() == model.len(), "VAL: op {i} as_slice().len() = {} expected {} (N={N})", s.len(), model.len());
                for (t, (wid, wp)) in s.iter().zip(model.iter()) {
                    let p = t.check("builder as_slice element");
                    ensure!(p == *wp && wid.map_or(true, |w| w == t.id), "OWN: op {i} builder as_slice(): element id {} payload {p}, expected {wid:?}/{wp}", t.id);
                }
            }
            BOp::Write(k) => {
                let s = b.as_mut_slice();
                ensure!(s.len() == model.len(), "VAL: op {i} as_mut_slice().len() = {} expected {}", s.len(), model.len());
                if !s.is_empty() {
                    let k = k % s.len();
                    next_payload += 1;
                    let t = Tracked::new(next_payload);
                    model[k] = (Some(t.id), t.payload);
                    s[k] = t; // drops the old element
                }
            }
            BOp::Clone => {
                let b2 = b.clone();
                let m2 = model.iter().map(|&(_, p)| (None, p)).collect();
                stack.push((b2, m2));
            }
            BOp::ClonePanic(k) => {
                let will_panic = *k < model.len();
                CLONE_FUSE.with(|f| f.set(*k as i64));
                let r = catch(|| b.clone());
                CLONE_FUSE.with(|f| f.set(-1));
                ensure!(r.is_err() == will_panic, "VAL: op {i} builder clone with a panicking element clone at {k}: panicked={} expected {will_panic}", r.is_err());
                if let Ok(b2) = r {
                    let m2 = model.iter().map(|&(_, p)| (None, p)).collect();
                    stack.push((b2, m2));
                } else {
                    complete = false;
                }
            }
            BOp::LenIsFull => {
                ensure!(b.len() == model.len() && b.is_full() == (model.len() == N), "VAL: op {i} len()={} is_full()={} expected {} {}", b.len(), b.is_full(), model.len(), model.len() == N);
            }
            BOp::Build => {
                let (b, m) = stack.pop().unwrap();
                if m.len() == N {
                    let arr = b.build();
                    for (t, (wid, wp)) in arr.iter().zip(m.iter()) {
                        let p = t.check("built array element");
                        ensure!(p == *wp && wid.map_or(true, |w| w == t.id), "VAL: op {i} build(): element id {} payload {p}, expected {wid:?}/{wp}", t.id);
                    }
                    built.push(arr);
                } else {
                    let r = catch(move || b.build());
                    ensure!(r.is_err(), "VAL: op {i} build() with {} of {N} elements pushed did not panic", m.len());
                    complete = false;
                }
            }
            BOp::DropNow => {
                let (b, _) = stack.pop().unwrap();
                drop(b);
            }
        }
    }
    drop(stack);
    drop(built);
    Ok(complete)
}

// ---------------------------------------------------------------- by-value map / from_fn with panicking closures
fn map_by_val<const N: usize>(panic_at: usize) -> Result<bool, String> {
    let arr: [Tracked; N] = std::array::from_fn(|i| Tracked::new(200 + i as u64));
    let want: Vec<u64> = arr.iter().map(|t| t.payload * 3).collect();
    let r = catch(move || {
        let mut k = 0usize;
        let out: [Tracked; N] = array::map_!(arr, |t: Tracked| {
            let p = t.check("map_! closure argument");
            if k == panic_at {
                panic!("closure panic at {k}");
            }
            k += 1;
            drop(t);
            Tracked::new(p * 3)
        });
        out
    });
    match r {
        Ok(out) => {
            ensure!(panic_at >= N, "VAL: map_! closure panicked at {panic_at} but an array was returned");
            let got: Vec<u64> = out.iter().map(|t| t.check("map_! output element")).collect();
            ensure!(got == want, "VAL: map_! result {got:?}, <[T;N]>::map gives {want:?}");
            Ok(true)
        }
        Err(_) => {
            ensure!(panic_at < N, "VAL: map_! panicked without the closure panicking (N={N})");
            Ok(false)
        }
    }
}
fn from_fn_by_val<const N: usize>(panic_at: usize) -> Result<bool, String> {
    let want: Vec<u64> = core::array::from_fn::<u64, N, _>(|i| 7 * i as u64 + 1).to_vec();
    let r = catch(move || {
        let out: [Tracked; N] = array::from_fn_!(|i| {
            if i == panic_at {
                panic!("closure panic at {i}");
            }
            Tracked::new(7 * i as u64 + 1)
        });
        out
    });
    match r {
        Ok(out) => {
            ensure!(panic_at >= N, "VAL: from_fn_! closure panicked at {panic_at} but an array was returned");
            let got: Vec<u64> = out.iter().map(|t| t.check("from_fn_! output element")).collect();
            ensure!(got == want, "VAL: from_fn_! result {got:?}, core::array::from_fn gives {want:?}");
            Ok(true)
        }
        Err(_) => {
            ensure!(panic_at < N, "VAL: from_fn_! panicked without the closure panicking (N={N})");
            Ok(false)
        }
    }
}

// ---------------------------------------------------------------- value equality of every macro form
fn values<const N: usize>(kind: u8) -> Result<bool, String> {
    match kind {
        0 => {
            let input: [u32; N] = core::array::from_fn(|i| (i as u32 + 1) * 1_000_003);
            let want = input.map(|x| x.wrapping_mul(3) ^ 5);
            let got: [u32; N] = array::map!(input, |x| x.wrapping_mul(3) ^ 5);
            ensure!(got == want, "VAL: map!(closure) {got:?} != {want:?}");
            let got: [u32; N] = array::map!(input, |x: u32| -> u32 { x.wrapping_mul(3) ^ 5 });
            ensure!(got == want, "VAL: map!(typed closure) {got:?} != {want:?}");
            const fn f(x: u32) -> u32 {
                x.wrapping_mul(3) ^ 5
            }
            let got: [u32; N] = array::map!(input, f);
            ensure!(got == want, "VAL: map!(fn path) {got:?} != {want:?}");
            let got: [u32; N] = array::map_!(input, |x| x.wrapping_mul(3) ^ 5);
            ensure!(got == want, "VAL: map_!(closure) {got:?} != {want:?}");
            let got: [u32; N] = array::map_!(input, f);
            ensure!(got == want, "VAL: map_!(fn path) {got:?} != {want:?}");
            let want: [u64; N] = core::array::from_fn(|i| (i as u64) << 33 | 1);
            let got: [u64; N] = array::from_fn!(|i| (i as u64) << 33 | 1);
            ensure!(got == want, "VAL: from_fn!(closure) {got:?} != {want:?}");
            let got = array::from_fn!([u64; N] => |i| (i as u64) << 33 | 1);
            ensure!(got == want, "VAL: from_fn!(typed) {got:?} != {want:?}");
            let got: [u64; N] = array::from_fn_!(|i| (i as u64) << 33 | 1);
            ensure!(got == want, "VAL: from_fn_!(closure) {got:?} != {want:?}");
            let got = array::from_fn_!([u64; N] => |i| (i as u64) << 33 | 1);
            ensure!(got == want, "VAL: from_fn_!(typed) {got:?} != {want:?}");
            // references into the input
            let got: [&u32; N] = array::map!(input, |ref x| x);
            ensure!(got.iter().zip(input.iter()).all(|(a, b)| std::ptr::eq(*a, b)), "VAL: map!(|ref x| x) does not borrow the input elements");
            Ok(true)
        }
        1 => {
            let input: [String; N] = core::array::from_fn(|i| format!("s{i}"));
            let want: [String; N] = core::array::from_fn(|i| format!("s{i}!"));
            let got: [String; N] = array::map!(input, |ref x| format!("{x}!"));
            ensure!(got == want, "VAL: map!(|ref x|) on Strings {got:?} != {want:?}");
            let got: [String; N] = array::map_!(input.clone(), |x: String| x + "!");
            ensure!(got == want, "VAL: map_! on Strings {got:?} != {want:?}");
            let got: [String; N] = array::from_fn!(|i| format!("s{i}!"));
            ensure!(got == want, "VAL: from_fn! Strings {got:?} != {want:?}");
            let got: [String; N] = array::from_fn_!(|i| format!("s{i}!"));
            ensure!(got == want, "VAL: from_fn_! Strings {got:?} != {want:?}");
            let got: [usize; N] = array::map!(input, |ref x| x.len());
            ensure!(got == input.each_ref().map(|x| x.len()), "VAL: map! len of Strings");
            // the array argument is an expression with an effect: evaluated exactly once, like a method receiver
            let n = std::cell::Cell::new(0u32);
            let got: [String; N] = array::map!({ n.set(n.get() + 1); input.clone() }, |ref x| format!("{x}!"));
            ensure!(got == want && n.get() == 1, "VAL: map! evaluated its array argument {} time(s)", n.get());
            n.set(0);
            let got: [String; N] = array::map_!({ n.set(n.get() + 1); input.clone() }, |x: String| x + "!");
            ensure!(got == want && n.get() == 1, "VAL: map_! evaluated its array argument {} time(s)", n.get());
            Ok(true)
        }
        _ => {
            let input: [Tracked; N] = core::array::from_fn(|i| Tracked::new(40 + i as u64));
            let want: Vec<u64> = input.iter().map(|t| t.payload + 1).collect();
            let got: [Tracked; N] = array::map!(input, |ref t| Tracked::new(t.check("map! input") + 1));
            ensure!(got.iter().map(|t| t.check("map! output")).collect::<Vec<_>>() == want, "VAL: map! over Tracked");
            let got2: [Tracked; N] = array::map_!(got, |t| t);
            ensure!(got2.iter().map(|t| t.check("map_! identity output")).collect::<Vec<_>>() == want, "VAL: map_! identity over Tracked");
            let got3: [Tracked; N] = array::from_fn!(|i| Tracked::new(41 + i as u64));
            ensure!(got3.iter().map(|t| t.check("from_fn! output")).collect::<Vec<_>>() == want, "VAL: from_fn! over Tracked");
            drop((input, got2, got3));
            Ok(true)
        }
    }
}

fn zst_run<const N: usize>(front: usize, back: usize, clones: usize, pushed: usize) -> Result<bool, String> {
    TOKEN_DROPS.with(|t| t.set(0));
    let mut created = N as u32;
    {
        let mut c = ArrayConsumer::new(core::array::from_fn::<Token, N, _>(|_| Token));
        let mut taken = 0usize;
        for _ in 0..front {
            if let Some(t) = c.next() {
                drop(ManuallyDrop::into_inner(t));
                taken += 1;
            }
        }
        for _ in 0..back {
            if let Some(t) = c.next_back() {
                drop(ManuallyDrop::into_inner(t));
                taken += 1;
            }
        }
        ensure!(c.as_slice().len() == N - taken, "VAL: zst consumer as_slice().len() = {} expected {}", c.as_slice().len(), N - taken);
        for _ in 0..clones {
            let c2 = c.clone();
            created += (N - taken) as u32;
            drop(c2);
        }
        drop(c);
    }
    let d = TOKEN_DROPS.with(|t| t.get());
    ensure!(d == created, "OWN: zero-sized Drop elements: {created} tokens were owned by consumers (N={N}, front {front}, back {back}, {clones} clones) but {d} destructor calls were observed");
    // builder
    TOKEN_DROPS.with(|t| t.set(0));
    {
        let mut b: ArrayBuilder<Token, N> = ArrayBuilder::new();
        let k = pushed.min(N);
        for _ in 0..k {
            b.push(Token);
        }
        ensure!(b.len() == k, "VAL: zst builder len {} expected {k}", b.len());
        if k == N {
            let arr = b.build();
            let mapped: [Token; N] = array::map_!(arr, |t: Token| t);
            drop(mapped);
        } else {
            drop(b);
        }
        let d = TOKEN_DROPS.with(|t| t.get());
        ensure!(d == k as u32, "OWN: zero-sized Drop elements: {k} tokens pushed into a builder (N={N}) but {d} destructor calls were observed");
        if k < N {
            // an under-filled builder must refuse to build whatever the element size: a zero-sized element has no bytes,
            // it still has an identity (a destructor call per value) and `[T; N]` promises N of them
            let mut b2: ArrayBuilder<Token, N> = ArrayBuilder::new();
            for _ in 0..k {
                b2.push(Token);
            }
            let r = catch(move || drop(b2.build()));
            ensure!(r.is_err(), "VAL: build() of a builder of zero-sized Drop elements with {k} of {N} elements pushed did not panic");
            let d2 = TOKEN_DROPS.with(|t| t.get());
            ensure!(d2 - d <= k as u32, "OWN: zero-sized Drop elements: early build() with {k} of {N} pushed, {} destructor calls", d2 - d);
            let mut b3: ArrayBuilder<(), N> = ArrayBuilder::new();
            for _ in 0..k {
                b3.push(());
            }
            let r = catch(move || b3.build());
            ensure!(r.is_err(), "VAL: build() of an ArrayBuilder<(), {N}> with {k} elements pushed did not panic");
        }
    }
    // destructure! of arrays / tuples of tokens
    TOKEN_DROPS.with(|t| t.set(0));
    {
        konst::destructure! {[a, _, rest @ .., z] = [Token, Token, Token, Token, Token]}
        drop((a, rest, z));
        konst::destructure! {(p, _, q) = (Token, Token, Token)}
        drop((p, q));
    }
    let d = TOKEN_DROPS.with(|t| t.get());
    ensure!(d == 8, "OWN: destructure! over zero-sized Drop elements: 8 tokens, {d} destructor calls");
    Ok(true)
}

thread_local! { static WIDE_LIVE: Cell<i64> = const { Cell::new(0) }; }
/// 32-byte aligned, with a destructor that counts and checks a stamp
#[derive(Debug)]
#[repr(align(32))]
struct Wide {
    stamp: u64,
    v: u64,
}
impl Wide {
    fn new(v: u64) -> Wide {
        WIDE_LIVE.with(|c| c.set(c.get() + 1));
        Wide { stamp: MAGIC, v }
    }
}
impl Drop for Wide {
    fn drop(&mut self) {
        if self.stamp != MAGIC {
            ledger_err(format!("BOTH: over-aligned element dropped without the magic stamp: {:#x}", self.stamp));
        }
        self.stamp = 0xDEAD;
        WIDE_LIVE.with(|c| c.set(c.get() - 1));
    }
}

fn aligned_run<const N: usize>(pushed: usize) -> Result<bool, String> {
    let pushed = pushed.min(N);
    WIDE_LIVE.with(|c| c.set(0));
    // u128 (alignment 16 on this target)
    let mut b = ArrayBuilder::<u128, N>::new();
    for i in 0..pushed {
        b.push((i as u128 + 1) << 100 | 7);
        let want: Vec<u128> = (0..=i).map(|j| (j as u128 + 1) << 100 | 7).collect();
        ensure!(b.as_slice() == &want[..] && b.len() == i + 1, "BOTH: ArrayBuilder<u128,{N}> after {} pushes: as_slice {:?}", i + 1, b.as_slice());
    }
    if pushed == N {
        let arr = b.build();
        let want: [u128; N] = core::array::from_fn(|j| (j as u128 + 1) << 100 | 7);
        ensure!(arr == want, "BOTH: ArrayBuilder<u128,{N}>::build {arr:?}, pushed {want:?}");
        let m = array::map_!(arr, |x| x ^ 1);
        ensure!(m == want.map(|x| x ^ 1), "BOTH: map_! over [u128; {N}]: {m:?}");
        let f: [u128; N] = array::from_fn_!(|i| (i as u128) << 90);
        ensure!(f == core::array::from_fn(|i| (i as u128) << 90), "BOTH: from_fn_! for [u128; {N}]: {f:?}");
    }
    // a 32-byte aligned Drop type
    let mut b = ArrayBuilder::<Wide, N>::new();
    for i in 0..pushed {
        b.push(Wide::new(i as u64 * 3 + 1));
        ensure!(b.as_slice().iter().enumerate().all(|(j, w)| w.stamp == MAGIC && w.v == j as u64 * 3 + 1 && (w as *const Wide as usize) % 32 == 0), "BOTH: ArrayBuilder<Wide,{N}> after {} pushes: {:?}", i + 1, b.as_slice());
    }
    if pushed == N {
        let arr = b.build();
        ensure!(arr.iter().enumerate().all(|(j, w)| w.stamp == MAGIC && w.v == j as u64 * 3 + 1), "BOTH: ArrayBuilder<Wide,{N}>::build returned {arr:?}");
        let mut c = ArrayConsumer::new(arr);
        let mut lo = 0u64;
        let mut hi = N as u64;
        let mut turn = false;
        while let Some(w) = if turn { c.next_back() } else { c.next() } {
            let w = core::mem::ManuallyDrop::into_inner(w);
            let want = if turn { hi -= 1; hi } else { lo += 1; lo - 1 };
            ensure!(w.stamp == MAGIC && w.v == want * 3 + 1, "BOTH: ArrayConsumer<Wide,{N}> yielded {w:?}, expected element {want}");
            turn = !turn;
        }
        drop(c);
        let m = array::map_!(core::array::from_fn::<Wide, N, _>(|i| Wide::new(i as u64)), |w| Wide::new(w.v + 100));
        ensure!(m.iter().enumerate().all(|(j, w)| w.stamp == MAGIC && w.v == j as u64 + 100), "BOTH: map_! over [Wide; {N}]: {m:?}");
    } else {
        drop(b);
    }
    let live = WIDE_LIVE.with(|c| c.get());
    ensure!(live == 0, "BOTH: over-aligned elements: {live} value(s) created but not dropped (negative: dropped twice)");
    Ok(true)
}

fn clone_from_run<const N: usize>(dst_len: usize, src_len: usize, consumer: bool) -> Result<bool, String> {
    if consumer {
        // a consumer with `len` elements left (the others taken from the front and dropped)
        let mk = |len: usize, base: u64| {
            let mut c = ArrayConsumer::new(std::array::from_fn::<Tracked, N, _>(|i| Tracked::new(base + i as u64)));
            for _ in 0..N.saturating_sub(len) {
                if let Some(t) = c.next() {
                    drop(ManuallyDrop::into_inner(t));
                }
            }
            c
        };
        let (mut d, s) = (mk(dst_len.min(N), 1000), mk(src_len.min(N), 2000));
        d.clone_from(&s);
        let (got, want): (Vec<u64>, Vec<u64>) = (d.as_slice().iter().map(|t| t.check("clone_from destination")).collect(), s.as_slice().iter().map(|t| t.payload).collect());
        ensure!(got == want, "VAL: ArrayConsumer::clone_from: destination holds {got:?}, source {want:?}");
        drop((d, s));
    } else {
        let mk = |len: usize, base: u64| {
            let mut b = ArrayBuilder::<Tracked, N>::new();
            for i in 0..len.min(N) {
                b.push(Tracked::new(base + i as u64));
            }
            b
        };
        let (mut d, s) = (mk(dst_len, 1000), mk(src_len, 2000));
        d.clone_from(&s);
        let (got, want): (Vec<u64>, Vec<u64>) = (d.as_slice().iter().map(|t| t.check("clone_from destination")).collect(), s.as_slice().iter().map(|t| t.payload).collect());
        ensure!(got == want && d.len() == s.len(), "VAL: ArrayBuilder::clone_from: destination holds {got:?}, source {want:?}");
        // the destination is still a working builder: fill it up and build
        for i in d.len()..N {
            d.push(Tracked::new(3000 + i as u64));
        }
        let arr = d.build();
        ensure!(arr.iter().all(|t| t.check("built after clone_from") > 0), "VAL: build after clone_from");
        drop((arr, s));
    }
    Ok(true)
}

fn run_case(c: &Case) -> (Result<bool, String>, Vec<String>) {
    ledger_reset();
    let r = match c {
        Case::Consumer { n, ops } => with_n!(*n, consumer_run, ops),
        Case::Builder { n, ops } => with_n!(*n, builder_run, ops),
        Case::MapByVal { n, panic_at } => with_n!(*n, map_by_val, *panic_at),
        Case::FromFnByVal { n, panic_at } => with_n!(*n, from_fn_by_val, *panic_at),
        Case::Values { n, kind } => with_n!(*n, values, *kind),
        Case::Zst { n, front, back, clones, pushed } => with_n!(*n, zst_run, *front, *back, *clones, *pushed),
        Case::CloneFrom { n, dst, src, consumer } => with_n!(*n, clone_from_run, *dst, *src, *consumer),
        Case::Aligned { n, pushed } => with_n!(*n, aligned_run, *pushed),
        Case::ValuesBig { which } => match which {
            0 => values_big::<16>(),
            1 => values_big::<17>(),
            2 => values_big::<33>(),
            3 => values_big::<64>(),
            _ => values_big::<100>(),
        },
    };
    let complete = matches!(r, Ok(true));
    let l = ledger_verdict(complete);
    (r, l)
}

/// keeps only the failures that belong to the selected property
fn verdict(c11: bool, c: &Case) -> Result<(), String> {
    let all_props = ALL.with(|a| a.get());
    let (r, ledger) = run_case(c);
    let mut all: Vec<String> = Vec::new();
    if let Err(e) = r {
        all.push(e);
    }
    all.extend(ledger);
    // ("BOTH:" - a value that arrives changed is a wrong array for C11 and a not-unchanged element for C15)
    let mine: Vec<&String> = all.iter().filter(|e| all_props || e.starts_with("BOTH:") || if c11 { e.starts_with("VAL:") } else { e.starts_with("OWN:") }).collect();
    // an unexpected failure of the other property's oracle is still reported under the property it
    // belongs to by the other check; here it is ignored
    match mine.first() {
        Some(e) => Err((*e).clone()),
        None => Ok(()),
    }
}

fn eval(ctx: &mut Ctx, c11: bool, c: Case) {
    ctx.case("array_ops", &c, |ctx| {
        let nt = match &c {
            Case::Consumer { n, ops } => {
                let f = ops.iter().any(|o| matches!(o, COp::Next { .. }));
                let b = ops.iter().any(|o| matches!(o, COp::NextBack { .. }));
                let x = ops.iter().any(|o| matches!(o, COp::Clone | COp::DropNow | COp::ClonePanic(_)));
                if f && b {
                    ctx.label("consumer_both_ends");
                }
                *n >= 2 && f && b && x
            }
            Case::Builder { n, ops } => {
                let pushes = ops.iter().filter(|o| matches!(o, BOp::Push)).count();
                let misuse = pushes > *n || ops.iter().any(|o| matches!(o, BOp::Build));
                if pushes > *n {
                    ctx.label("builder_over_push");
                }
                misuse || ops.iter().any(|o| matches!(o, BOp::Clone))
            }
            Case::MapByVal { n, panic_at } | Case::FromFnByVal { n, panic_at } => {
                if panic_at < n {
                    ctx.label("closure_panics");
                }
                *n >= 2 && (*panic_at > 0 || *panic_at >= *n)
            }
            Case::Values { n, kind } => *n >= 2 && *kind >= 1 || *n == 0,
            Case::Zst { n, front, back, .. } => front + back < *n,
            Case::ValuesBig { .. } => true,
            Case::CloneFrom { dst, src, .. } => dst != src,
            Case::Aligned { n, .. } => *n >= 1,
        };
        if nt {
            let cls = match &c {
                Case::Consumer { .. } => "consumer",
                Case::Builder { .. } => "builder",
                Case::MapByVal { .. } => "map_",
                Case::FromFnByVal { .. } => "from_fn_",
                Case::Values { .. } => "values",
                Case::Zst { .. } => "zst_drop",
                Case::ValuesBig { .. } => "values_big",
                Case::CloneFrom { .. } => "clone_from",
                Case::Aligned { .. } => "over_aligned",
            };
            ctx.nontrivial(cls, &c, || json!(c));
        }
        verdict(c11, &c)
    });
}

fn cops() -> Vec<COp> {
    vec![COp::Next { keep: true }, COp::Next { keep: false }, COp::NextBack { keep: true }, COp::NextBack { keep: false }, COp::AsSlice, COp::Swap(0, 1), COp::Clone, COp::DropNow, COp::AssertIsEmpty, COp::ClonePanic(0), COp::ClonePanic(1)]
}
fn bops() -> Vec<BOp> {
    vec![BOp::Push, BOp::AsSlice, BOp::Write(0), BOp::Clone, BOp::Build, BOp::DropNow, BOp::LenIsFull, BOp::ClonePanic(1)]
}

fn explore(ctx: &mut Ctx, c11: bool, miri: bool) {
    let maxn = if miri { 3 } else { 6 };
    for n in 0..=maxn {
        for kind in 0..3 {
            eval(ctx, c11, Case::Values { n, kind });
        }
        for panic_at in 0..=n {
            eval(ctx, c11, Case::MapByVal { n, panic_at });
            eval(ctx, c11, Case::FromFnByVal { n, panic_at });
        }
    }
    for which in 0..(if miri { 1 } else { 5 }) {
        eval(ctx, c11, Case::ValuesBig { which });
    }
    for n in 0..=maxn {
        for front in 0..=(n + 1).min(3) {
            for back in 0..=(n + 1).min(3) {
                for clones in 0..2 {
                    for pushed in [0, n / 2, n] {
                        eval(ctx, c11, Case::Zst { n, front, back, clones, pushed });
                    }
                }
            }
        }
    }
    for n in 0..=maxn {
        for dst in 0..=n {
            for src in 0..=n {
                for consumer in [false, true] {
                    eval(ctx, c11, Case::CloneFrom { n, dst, src, consumer });
                }
            }
        }
    }
    for n in 0..=maxn {
        for pushed in 0..=n {
            eval(ctx, c11, Case::Aligned { n, pushed });
        }
    }
    ctx.exhaustive_part("over-aligned element types (u128; a 32-byte aligned Drop struct): N in 0..=6 x builder fill level; as_slice after every push, build, consumer from both ends, map_!/from_fn_!, live-value count");
    ctx.exhaustive_part("Clone::clone_from on ArrayBuilder and ArrayConsumer: N in 0..=6 x destination fill level x source fill level");
    ctx.exhaustive_part("zero-sized Drop tokens: N in 0..=6 x front/back takes 0..=3 x clones x builder fill levels (+ destructure! of token arrays/tuples): destructor calls counted");
    ctx.exhaustive_part("N in 0..=6 x {u32,String,Tracked} value checks of map!/map_!/from_fn!/from_fn_! (all closure forms); map_!/from_fn_! with the closure panicking at every element");
    // all op sequences up to a depth
    let depth_c = if miri { 2 } else { ctx.by_tier(5, 6) };
    let depth_b = if miri { 3 } else { ctx.by_tier(6, 7) };
    let (c_ops, b_ops) = (cops(), bops());
    for n in 0..=(if miri { 2 } else { 4 }) {
        kvh::gen::for_each_seq(&(0..c_ops.len()).collect::<Vec<_>>(), depth_c, |ix| {
            let ops: Vec<COp> = ix.iter().map(|&i| c_ops[i].clone()).collect();
            eval(ctx, c11, Case::Consumer { n, ops });
        });
        if n <= 3 {
            kvh::gen::for_each_seq(&(0..b_ops.len()).collect::<Vec<_>>(), depth_b, |ix| {
                let ops: Vec<BOp> = ix.iter().map(|&i| b_ops[i].clone()).collect();
                eval(ctx, c11, Case::Builder { n, ops });
            });
        }
        if ctx.too_many() {
            return;
        }
    }
    ctx.exhaustive_part(&format!("ArrayConsumer<Tracked,N> N in 0..=4: all sequences of <= {depth_c} ops over 11 op kinds; ArrayBuilder<Tracked,N> N in 0..=3: all sequences of <= {depth_b} ops over 8 op kinds"));
    if miri {
        return;
    }
    let n = ctx.by_tier(30_000, 600_000);
    let strat = (0usize..7, any::<bool>(), proptest::collection::vec((0usize..9, 0usize..6, 0usize..6), 0..22));
    ctx.prop("array_ops", n, strat, |ctx, v| {
        let c = fold_case(v);
        ctx.label("random");
        ctx.nontrivial("random", &c, || json!(c));
        verdict(c11, &c)
    });
}

fn fold_case((n, is_builder, ops): &(usize, bool, Vec<(usize, usize, usize)>)) -> Case {
    if *is_builder {
        let b = bops();
        Case::Builder {
            n: *n,
            ops: ops
                .iter()
                .map(|&(k, a, _)| match &b[k % b.len()] {
                    BOp::Write(_) => BOp::Write(a),
                    BOp::ClonePanic(_) => BOp::ClonePanic(a),
                    o => o.clone(),
                })
                .collect(),
        }
    } else {
        let c = cops();
        Case::Consumer {
            n: *n,
            ops: ops
                .iter()
                .map(|&(k, a, b)| match &c[k % c.len()] {
                    COp::Swap(_, _) => COp::Swap(a, b),
                    COp::ClonePanic(_) => COp::ClonePanic(a),
                    o => o.clone(),
                })
                .collect(),
        }
    }
}

fn main() {
    kvh::on_thread(real_main);
}

fn real_main() {
    let args = kvh::parse_args("C11", "c11");
    let c11 = args.prop != "C15";
    ALL.with(|a| a.set(args.prop == "C01"));
    let miri = args.mode == "miri";
    let mut ctx = Ctx::new(args.clone(), if c11 { RULE11 } else { RULE15 });
    if miri {
        ctx.assume("miri mode: compact deterministic subset; Miri itself is the UB oracle (uninitialised reads, double drops of non-ledger data, invalid values)");
    }
    if let Some(p) = &args.replay {
        let (_check, case) = kvh::load_replay(p);
        let c: Case = match serde_json::from_value::<Case>(case.clone()) {
            Ok(c) => c,
            Err(_) => fold_case(&serde_json::from_value(case).expect("replay case")),
        };
        println!("replaying {:?}", c);
        ctx.case("array_ops", &c, |_| verdict(c11, &c));
    } else {
        explore(&mut ctx, c11, miri);
    }
    std::process::exit(ctx.finish());
}

//! C13 — Parser positions always describe where its remainder sits in the original string.
//! C14 — Parser operations transform the remainder exactly like the string functions.
//! One stateful engine (operation histories interpreted against a model); `--property` selects
//! which oracle is asserted, so each property has its own verdict and evidence.
use konst::parsing::{ErrorKind, ParseDirection, ParseError, Parser};
use kvh::{gen, Ctx};
use proptest::prelude::*;
use serde::{Deserialize, Serialize};
use serde_json::json;

const RULE13: &str = "cases = (original string, base offset for with_start_offset, sequence of Parser operations with arguments); C13 oracle after every Ok step: remainder() is exactly original[start_offset-base .. end_offset-base] (same address), both offsets are char boundaries, the new remainder lies inside the previous one and the end the operation does not work from is unchanged, parse_direction() names the operation's end; after every Err: error offset == the start offset (from-start ops) / end offset (from-end ops) the parser reported before the call and error_direction() names that end, and its Display text / ParseError::panic message name that offset; after every step the errors a user-written parsing function builds from the parser (into_error, into_other_error, ParseError::new/other_error) carry the offset of the end named by parse_direction(); non-trivial = history mixing a from-start and a from-end op that both moved an end, or an error raised with base != 0, or a two-sided trim removing from both ends; distinct by (original, base, history)";
const RULE14: &str = "cases = (original string, base offset, sequence of Parser operations); C14 oracle per step = a model that applies the std string function to the previous remainder (strip_prefix/suffix, trim_ascii*, trim_*_matches, find/rfind, split_once/rsplit_once, the integer/bool prefix scanner): Ok <=> the function finds something, returned value and new remainder equal the model's (by address), Err returns no parser; split/rsplit/split_keep yield the final piece once and then ErrorKind::SplitExhausted, split_terminator/rsplit_terminator need a delimiter; plus whole-protocol runs: repeating split(p)/rsplit(p) == str::split/rsplit pieces then SplitExhausted, split_terminator/rsplit_terminator == each piece followed/preceded by a delimiter then Err; non-trivial = history of >= 2 ops where some op failed and a later one succeeded, or a split protocol reaching its last piece, or an op mixing ends; distinct by (original, base, history)";

#[derive(Serialize, Deserialize, Debug, Clone, Hash, PartialEq)]
pub enum Pat {
    S(String),
    C(char),
}
impl Pat {
    fn text(&self) -> String {
        match self {
            Pat::S(s) => s.clone(),
            Pat::C(c) => c.to_string(),
        }
    }
}

#[derive(Serialize, Deserialize, Debug, Clone, Hash, PartialEq)]
pub enum Op {
    Trim,
    TrimStart,
    TrimEnd,
    TrimMatches(Pat),
    TrimStartMatches(Pat),
    TrimEndMatches(Pat),
    StripPrefix(Pat),
    StripSuffix(Pat),
    FindSkip(Pat),
    RfindSkip(Pat),
    Split(Pat),
    Rsplit(Pat),
    SplitTerminator(Pat),
    RsplitTerminator(Pat),
    SplitKeep(Pat),
    Skip(usize),
    SkipBack(usize),
    /// 0 u8, 1 i8, 2 u16, 3 i16, 4 u32, 5 i32, 6 u64, 7 i64, 8 u128, 9 i128, 10 usize, 11 isize, 12 bool
    Parse(u8),
}

#[derive(Clone, Copy, PartialEq, Debug)]
enum End {
    Start,
    End,
    Both,
}
impl Op {
    fn end(&self) -> End {
        match self {
            Op::Trim | Op::TrimMatches(_) => End::Both,
            Op::TrimEnd | Op::TrimEndMatches(_) | Op::StripSuffix(_) | Op::RfindSkip(_) | Op::Rsplit(_) | Op::RsplitTerminator(_) | Op::SkipBack(_) => End::End,
            _ => End::Start,
        }
    }
}

#[derive(Serialize, Deserialize, Debug, Clone, Hash)]
pub struct Case {
    orig: String,
    base: usize,
    ops: Vec<Op>,
}

macro_rules! ensure {
    ($c:expr, $($fmt:tt)*) => { if !$c { return Err(format!($($fmt)*)); } };
}

/// what the real Parser returned for one op
enum Out<'a> {
    Ok(Option<Val<'a>>, Parser<'a>),
    Err(ParseError<'a>),
}
#[derive(Debug, PartialEq, Clone)]
enum Val<'a> {
    Str(&'a str),
    Int(i128),
    UInt(u128),
    Bool(bool),
}

macro_rules! with_pat {
    ($pat:expr, |$p:ident| $e:expr) => {
        match $pat {
            Pat::S(s) => {
                let $p = s.as_str();
                $e
            }
            Pat::C(c) => {
                let $p = *c;
                $e
            }
        }
    };
}

fn apply<'a>(p: Parser<'a>, op: &Op) -> Out<'a> {
    fn r<'a>(x: Result<Parser<'a>, ParseError<'a>>) -> Out<'a> {
        match x {
            Ok(p) => Out::Ok(None, p),
            Err(e) => Out::Err(e),
        }
    }
    fn rv<'a>(x: Result<(&'a str, Parser<'a>), ParseError<'a>>) -> Out<'a> {
        match x {
            Ok((v, p)) => Out::Ok(Some(Val::Str(v)), p),
            Err(e) => Out::Err(e),
        }
    }
    macro_rules! int {
        ($m:ident, $variant:ident, $wide:ty) => {
            match p.$m() {
                Ok((v, p)) => Out::Ok(Some(Val::$variant(v as $wide)), p),
                Err(e) => Out::Err(e),
            }
        };
    }
    match op {
        Op::Trim => Out::Ok(None, p.trim()),
        Op::TrimStart => Out::Ok(None, p.trim_start()),
        Op::TrimEnd => Out::Ok(None, p.trim_end()),
        Op::TrimMatches(pt) => Out::Ok(None, with_pat!(pt, |x| p.trim_matches(x))),
        Op::TrimStartMatches(pt) => Out::Ok(None, with_pat!(pt, |x| p.trim_start_matches(x))),
        Op::TrimEndMatches(pt) => Out::Ok(None, with_pat!(pt, |x| p.trim_end_matches(x))),
        Op::StripPrefix(pt) => r(with_pat!(pt, |x| p.strip_prefix(x))),
        Op::StripSuffix(pt) => r(with_pat!(pt, |x| p.strip_suffix(x))),
        Op::FindSkip(pt) => r(with_pat!(pt, |x| p.find_skip(x))),
        Op::RfindSkip(pt) => r(with_pat!(pt, |x| p.rfind_skip(x))),
        Op::Split(pt) => rv(with_pat!(pt, |x| p.split(x))),
        Op::Rsplit(pt) => rv(with_pat!(pt, |x| p.rsplit(x))),
        Op::SplitTerminator(pt) => rv(with_pat!(pt, |x| p.split_terminator(x))),
        Op::RsplitTerminator(pt) => rv(with_pat!(pt, |x| p.rsplit_terminator(x))),
        Op::SplitKeep(pt) => rv(with_pat!(pt, |x| p.split_keep(x))),
        Op::Skip(n) => Out::Ok(None, p.skip(*n)),
        Op::SkipBack(n) => Out::Ok(None, p.skip_back(*n)),
        Op::Parse(t) => match t {
            0 => int!(parse_u8, UInt, u128),
            1 => int!(parse_i8, Int, i128),
            2 => int!(parse_u16, UInt, u128),
            3 => int!(parse_i16, Int, i128),
            4 => int!(parse_u32, UInt, u128),
            5 => int!(parse_i32, Int, i128),
            6 => int!(parse_u64, UInt, u128),
            7 => int!(parse_i64, Int, i128),
            8 => int!(parse_u128, UInt, u128),
            9 => int!(parse_i128, Int, i128),
            10 => int!(parse_usize, UInt, u128),
            11 => int!(parse_isize, Int, i128),
            _ => match p.parse_bool() {
                Ok((v, p)) => Out::Ok(Some(Val::Bool(v)), p),
                Err(e) => Out::Err(e),
            },
        },
    }
}

/// the model: remainder = orig[lo..hi] plus the one-shot "last piece yielded" flag
#[derive(Clone, Debug)]
struct Model {
    lo: usize,
    hi: usize,
    last_yielded: bool,
}
enum MOut<'a> {
    Ok(Option<Val<'a>>),
    Err(Option<ErrorKind>),
}

fn parse_model<'a>(rem: &'a str, t: u8) -> Option<(Val<'a>, usize)> {
    if t == 12 {
        return if rem.starts_with("true") {
            Some((Val::Bool(true), 4))
        } else if rem.starts_with("false") {
            Some((Val::Bool(false), 5))
        } else {
            None
        };
    }
    let signed = t % 2 == 1;
    let b = rem.as_bytes();
    let mut i = 0;
    if signed && b.first() == Some(&b'-') {
        i = 1;
    }
    let d0 = i;
    while i < b.len() && b[i].is_ascii_digit() {
        i += 1;
    }
    if i == d0 {
        return None;
    }
    let run = &rem[..i];
    macro_rules! p {
        ($t:ty, $v:ident, $w:ty) => {
            run.parse::<$t>().ok().map(|v| (Val::$v(v as $w), i))
        };
    }
    match t {
        0 => p!(u8, UInt, u128),
        1 => p!(i8, Int, i128),
        2 => p!(u16, UInt, u128),
        3 => p!(i16, Int, i128),
        4 => p!(u32, UInt, u128),
        5 => p!(i32, Int, i128),
        6 => p!(u64, UInt, u128),
        7 => p!(i64, Int, i128),
        8 => p!(u128, UInt, u128),
        9 => p!(i128, Int, i128),
        10 => p!(usize, UInt, u128),
        _ => p!(isize, Int, i128),
    }
}

/// applies `op` to the model; `alt_hi`/`alt_lo`: for two-sided trim_matches the other composition order
fn model_step<'a>(orig: &'a str, m: &mut Model, op: &Op) -> (MOut<'a>, Option<(usize, usize)>) {
    let rem = &orig[m.lo..m.hi];
    let (lo, hi) = (m.lo, m.hi);
    let mut alt = None;
    let out = match op {
        Op::Trim => {
            let t = rem.trim_ascii_start();
            m.lo = hi - t.len();
            m.hi = m.lo + t.trim_ascii_end().len();
            MOut::Ok(None)
        }
        Op::TrimStart => {
            m.lo = hi - rem.trim_ascii_start().len();
            MOut::Ok(None)
        }
        Op::TrimEnd => {
            m.hi = lo + rem.trim_ascii_end().len();
            MOut::Ok(None)
        }
        Op::TrimMatches(p) => {
            // two-sided trimming with a multi-char pattern has no std equal; C14's oracle is "the
            // corresponding free string function", i.e. konst::string::trim_matches on the previous
            // remainder (its own agreement with std's one-sided functions is C05's business)
            let t = match p {
                Pat::S(x) => konst::string::trim_matches(rem, x.as_str()),
                Pat::C(c) => konst::string::trim_matches(rem, *c),
            };
            if t.is_empty() {
                // position of an empty result: where start-trimming ends (what the free function returns)
                let pt = p.text();
                let ts = rem.trim_start_matches(pt.as_str());
                m.lo = hi - ts.len();
                m.hi = m.lo;
                // an empty remainder may legitimately sit anywhere the two one-sided trims can meet
                let te = rem.trim_end_matches(pt.as_str());
                alt = Some((lo + te.len(), lo + te.len()));
            } else {
                m.lo = lo + (t.as_ptr() as usize - rem.as_ptr() as usize);
                m.hi = m.lo + t.len();
            }
            MOut::Ok(None)
        }
        Op::TrimStartMatches(p) => {
            m.lo = hi - rem.trim_start_matches(p.text().as_str()).len();
            MOut::Ok(None)
        }
        Op::TrimEndMatches(p) => {
            m.hi = lo + rem.trim_end_matches(p.text().as_str()).len();
            MOut::Ok(None)
        }
        Op::StripPrefix(p) => match rem.strip_prefix(p.text().as_str()) {
            Some(r) => {
                m.lo = hi - r.len();
                MOut::Ok(None)
            }
            None => MOut::Err(None),
        },
        Op::StripSuffix(p) => match rem.strip_suffix(p.text().as_str()) {
            Some(r) => {
                m.hi = lo + r.len();
                MOut::Ok(None)
            }
            None => MOut::Err(None),
        },
        Op::FindSkip(p) => {
            let pt = p.text();
            match rem.find(pt.as_str()) {
                Some(pos) => {
                    m.lo = lo + pos + pt.len();
                    MOut::Ok(None)
                }
                None => MOut::Err(None),
            }
        }
        Op::RfindSkip(p) => {
            let pt = p.text();
            if pt.is_empty() {
                MOut::Ok(None)
            } else {
                match rem.rfind(pt.as_str()) {
                    Some(pos) => {
                        m.hi = lo + pos;
                        MOut::Ok(None)
                    }
                    None => MOut::Err(None),
                }
            }
        }
        Op::Split(p) => {
            let pt = p.text();
            if m.last_yielded {
                MOut::Err(Some(ErrorKind::SplitExhausted))
            } else {
                match rem.split_once(pt.as_str()) {
                    Some((b, a)) => {
                        m.lo = hi - a.len();
                        MOut::Ok(Some(Val::Str(b)))
                    }
                    None => {
                        m.last_yielded = true;
                        m.lo = hi;
                        MOut::Ok(Some(Val::Str(rem)))
                    }
                }
            }
        }
        Op::SplitKeep(p) => {
            let pt = p.text();
            if m.last_yielded {
                MOut::Err(Some(ErrorKind::SplitExhausted))
            } else {
                match rem.find(pt.as_str()) {
                    Some(pos) => {
                        m.lo = lo + pos;
                        MOut::Ok(Some(Val::Str(&rem[..pos])))
                    }
                    None => {
                        m.last_yielded = true;
                        m.lo = hi;
                        MOut::Ok(Some(Val::Str(rem)))
                    }
                }
            }
        }
        Op::Rsplit(p) => {
            let pt = p.text();
            if m.last_yielded {
                MOut::Err(Some(ErrorKind::SplitExhausted))
            } else {
                match rem.rsplit_once(pt.as_str()) {
                    Some((a, b)) => {
                        m.hi = lo + a.len();
                        MOut::Ok(Some(Val::Str(b)))
                    }
                    None => {
                        m.last_yielded = true;
                        m.hi = lo;
                        MOut::Ok(Some(Val::Str(rem)))
                    }
                }
            }
        }
        Op::SplitTerminator(p) => {
            let pt = p.text();
            if m.last_yielded {
                MOut::Err(Some(ErrorKind::SplitExhausted))
            } else if rem.is_empty() {
                MOut::Err(Some(ErrorKind::DelimiterNotFound))
            } else {
                match rem.split_once(pt.as_str()) {
                    Some((b, a)) => {
                        m.last_yielded = a.is_empty();
                        m.lo = hi - a.len();
                        MOut::Ok(Some(Val::Str(b)))
                    }
                    None => MOut::Err(Some(ErrorKind::DelimiterNotFound)),
                }
            }
        }
        Op::RsplitTerminator(p) => {
            let pt = p.text();
            if m.last_yielded {
                MOut::Err(Some(ErrorKind::SplitExhausted))
            } else if rem.is_empty() {
                MOut::Err(Some(ErrorKind::DelimiterNotFound))
            } else {
                match rem.rsplit_once(pt.as_str()) {
                    Some((a, b)) => {
                        m.last_yielded = a.is_empty();
                        m.hi = lo + a.len();
                        MOut::Ok(Some(Val::Str(b)))
                    }
                    None => MOut::Err(Some(ErrorKind::DelimiterNotFound)),
                }
            }
        }
        Op::Skip(n) => {
            let mut k = (*n).min(rem.len());
            while !rem.is_char_boundary(k) {
                k += 1;
            }
            m.lo = lo + k;
            MOut::Ok(None)
        }
        Op::SkipBack(n) => {
            let mut k = rem.len().saturating_sub(*n);
            while !rem.is_char_boundary(k) {
                k -= 1;
            }
            m.hi = lo + k;
            MOut::Ok(None)
        }
        Op::Parse(t) => match parse_model(rem, *t) {
            Some((v, used)) => {
                m.lo = lo + used;
                MOut::Ok(Some(v))
            }
            None => MOut::Err(None),
        },
    };
    (out, alt)
}

fn dir_of(e: End) -> ParseDirection {
    match e {
        End::Start => ParseDirection::FromStart,
        End::End => ParseDirection::FromEnd,
        End::Both => ParseDirection::FromBoth,
    }
}

#[derive(Default)]
pub struct Walk {
    pub moved_start: bool,
    pub moved_end: bool,
    pub err_then_ok: bool,
    pub saw_err: bool,
    pub err_with_base: bool,
    pub both_trim_both_ends: bool,
    pub last_piece: bool,
}

/// interprets the history; `c13`: assert the C13 oracle, otherwise the C14 oracle
pub fn run_case(c: &Case, c13: bool, w: &mut Walk) -> Result<(), String> {
    let orig = c.orig.as_str();
    let base = c.base;
    let mut p = if base == 0 { Parser::new(orig) } else { Parser::with_start_offset(orig, base) };
    let mut m = Model { lo: 0, hi: orig.len(), last_yielded: false };
    let optr = orig.as_ptr() as usize;
    for (i, op) in c.ops.iter().enumerate() {
        let (pre_start, pre_end, pre_rem) = (p.start_offset(), p.end_offset(), p.remainder());
        let pre_m = m.clone();
        let (mout, alt) = model_step(orig, &mut m, op);
        let keep = p;
        let out = apply(p, op);
        let end = op.end();
        match out {
            Out::Ok(val, np) => {
                let rem = np.remainder();
                if c13 {
                    let (s, e) = (np.start_offset(), np.end_offset());
                    ensure!(s >= base && e >= s && e - base <= orig.len(), "step {i} {op:?}: offsets {s}..{e} (base {base}) out of range for a string of {} bytes", orig.len());
                    let (ls, le) = (s - base, e - base);
                    ensure!(orig.is_char_boundary(ls) && orig.is_char_boundary(le), "step {i} {op:?}: offsets {ls}..{le} are not char boundaries of {orig:?}");
                    let want = &orig[ls..le];
                    ensure!(
                        rem.len() == want.len() && (rem.is_empty() || rem.as_ptr() == want.as_ptr()),
                        "step {i} {op:?}: remainder() is {:?} (at byte {}) but original[start_offset-base..end_offset-base] = original[{ls}..{le}] = {:?}",
                        rem,
                        (rem.as_ptr() as usize).wrapping_sub(optr) as isize,
                        want
                    );
                    ensure!(s >= pre_start && e <= pre_end, "step {i} {op:?}: new range {s}..{e} not inside the previous {pre_start}..{pre_end}");
                    match end {
                        End::Start => ensure!(e == pre_end, "step {i} {op:?} works from the start but end_offset moved {pre_end} -> {e}"),
                        End::End => ensure!(s == pre_start, "step {i} {op:?} works from the end but start_offset moved {pre_start} -> {s}"),
                        End::Both => {}
                    }
                    ensure!(np.parse_direction() == dir_of(end), "step {i} {op:?}: parse_direction() = {:?}, expected {:?}", np.parse_direction(), dir_of(end));
                    if s != pre_start {
                        w.moved_start = true;
                    }
                    if e != pre_end {
                        w.moved_end = true;
                    }
                    if end == End::Both && s != pre_start && e != pre_end {
                        w.both_trim_both_ends = true;
                    }
                }
                // model agreement (asserted for C14; for C13 a divergence just ends the walk)
                let agree = (|| -> Result<(), String> {
                    let MOut::Ok(mval) = &mout else {
                        return Err(format!("step {i} {op:?} on {pre_rem:?}: konst returned Ok (remainder {rem:?}) but the string function finds nothing"));
                    };
                    let want = &orig[m.lo..m.hi];
                    let mut ok = rem.len() == want.len() && (rem.is_empty() || rem.as_ptr() == want.as_ptr());
                    if !ok {
                        if let Some((al, ah)) = alt {
                            let w2 = &orig[al..ah];
                            if rem.len() == w2.len() && (rem.is_empty() || rem.as_ptr() == w2.as_ptr()) {
                                ok = true;
                                m.lo = al;
                                m.hi = ah;
                            }
                        }
                    }
                    ensure!(ok, "step {i} {op:?} on {pre_rem:?}: konst remainder {rem:?} but the string function leaves {want:?} (bytes {}..{})", m.lo, m.hi);
                    match (&val, mval) {
                        (None, None) => {}
                        (Some(Val::Str(k)), Some(Val::Str(o))) => ensure!(k.len() == o.len() && (k.is_empty() || k.as_ptr() == o.as_ptr()), "step {i} {op:?} on {pre_rem:?}: yielded {k:?}, expected {o:?}"),
                        (a, b) => ensure!(a.as_ref() == b.as_ref(), "step {i} {op:?} on {pre_rem:?}: value {a:?}, expected {b:?}"),
                    }
                    Ok(())
                })();
                match agree {
                    Ok(()) => {}
                    Err(e) if !c13 => return Err(e),
                    Err(_) => return Ok(()),
                }
                if w.saw_err {
                    w.err_then_ok = true;
                }
                if m.last_yielded && !pre_m.last_yielded {
                    w.last_piece = true;
                }
                p = np;
            }
            Out::Err(e) => {
                w.saw_err = true;
                if c13 {
                    let want = if end == End::End { pre_end } else { pre_start };
                    ensure!(
                        e.offset() == want,
                        "step {i} {op:?} failed: error offset {} but the parser it was called on had start_offset {pre_start} end_offset {pre_end} (expected {want}, base {base})",
                        e.offset()
                    );
                    ensure!(e.error_direction() == dir_of(end), "step {i} {op:?} failed: error_direction() = {:?}, expected {:?}", e.error_direction(), dir_of(end));
                    // the two renderings of the error (Display, and the panic unwrap_ctx! raises) name that offset
                    // (rendered once per distinct (offset, direction, kind): the text is a function of those alone)
                    let fresh = first_rendering(&e, 0);
                    let text = if fresh { e.to_string() } else { format!(" {want} byte offset") };
                    ensure!(text.contains(&format!(" {want} byte offset")), "step {i} {op:?} failed: Display {text:?} does not name offset {want}");
                    let e2 = e.copy();
                    if fresh { match kvh::catch(move || -> () { e2.panic() }) {
                        Ok(()) => return Err(format!("step {i} {op:?}: ParseError::panic returned")),
                        Err(msg) => ensure!(msg.contains(&format!(" {want} byte offset")), "step {i} {op:?} failed: panic message {msg:?} does not name offset {want}"),
                    } }
                    mark_rendered(&e, 0);
                    if base != 0 {
                        w.err_with_base = true;
                    }
                } else {
                    let MOut::Err(kind) = &mout else {
                        return Err(format!("step {i} {op:?} on {pre_rem:?}: konst returned Err({:?}) but the string function finds something (expected remainder {:?})", e.kind(), &orig[m.lo..m.hi]));
                    };
                    if let Some(k) = kind {
                        ensure!(e.kind() == *k, "step {i} {op:?} on {pre_rem:?}: error kind {:?}, expected {:?}", e.kind(), k);
                    }
                }
                if let MOut::Ok(_) = mout {
                    if c13 {
                        return Ok(());
                    }
                }
                // a failing op returns no parser: continue from the (Copy) parser it was called on
                m = pre_m;
                p = keep;
            }
        }
        if c13 {
            user_errors(&p, i, false)?;
        }
    }
    if c13 && c.ops.is_empty() {
        user_errors(&p, usize::MAX, false)?;
    }
    Ok(())
}

thread_local! {
    /// renderings (Display / panic message) are functions of (offset, direction, kind, message) alone: each
    /// distinct tuple is rendered once per thread and then skipped
    static RENDERED: std::cell::RefCell<std::collections::HashSet<(usize, u8, u8, u8)>> = std::cell::RefCell::new(std::collections::HashSet::new());
}
fn first_rendering(e: &ParseError<'_>, which: u8) -> bool {
    RENDERED.with(|r| !r.borrow().contains(&(e.offset(), e.error_direction() as u8, e.kind() as u8, which)))
}
/// only a rendering that passed is remembered, so a failing case fails again when it is re-run (shrinking, replay)
fn mark_rendered(e: &ParseError<'_>, which: u8) {
    RENDERED.with(|r| r.borrow_mut().insert((e.offset(), e.error_direction() as u8, e.kind() as u8, which)));
}

/// errors a user-written parsing function builds "for this point in parsing" (Parser::into_error /
/// into_other_error, ParseError::new / other_error): they must name the end the parser was last
/// advanced from and carry that end's offset, exactly like the errors of the built-in operations
fn user_errors(p: &Parser<'_>, i: usize, render: bool) -> Result<(), String> {
    static MSG: &str = "custom message";
    let (s, e, d) = (p.start_offset(), p.end_offset(), p.parse_direction());
    let errs = [
        ("into_error", p.into_error(ErrorKind::Strip), ErrorKind::Strip),
        ("ParseError::new", ParseError::new(*p, ErrorKind::ParseInteger), ErrorKind::ParseInteger),
        ("into_other_error", p.into_other_error(&MSG), ErrorKind::Other),
        ("ParseError::other_error", ParseError::other_error(*p, &MSG), ErrorKind::Other),
    ];
    for (name, err, kind) in errs {
        let ok = match d {
            ParseDirection::FromStart => err.offset() == s,
            ParseDirection::FromEnd => err.offset() == e,
            ParseDirection::FromBoth => err.offset() == s || err.offset() == e,
        };
        ensure!(ok, "after step {i}: {name} on a parser with offsets {s}..{e} and direction {d:?} reports offset {}", err.offset());
        ensure!(err.error_direction() == d, "after step {i}: {name} reports direction {:?}, the parser's is {d:?}", err.error_direction());
        ensure!(err.kind() == kind, "after step {i}: {name} reports kind {:?}, expected {kind:?}", err.kind());
        ensure!(err.copy() == err, "after step {i}: {name}: copy() differs from the error");
        if !render && !first_rendering(&err, 1 + (kind == ErrorKind::Other) as u8) {
            continue;
        }
        let text = err.to_string();
        ensure!(text.contains(&format!(" {} byte offset", err.offset())), "after step {i}: {name}: Display {text:?} does not name offset {}", err.offset());
        if kind == ErrorKind::Other {
            ensure!(text.contains(MSG), "after step {i}: {name}: Display {text:?} lacks the custom message");
        }
        mark_rendered(&err, 1 + (kind == ErrorKind::Other) as u8);
    }
    Ok(())
}

/// whole-protocol check (C14): repeat one split-family op until it fails
fn protocol(orig: &str, pat: &Pat, which: u8) -> Result<(), String> {
    let pt = pat.text();
    if pt.is_empty() {
        return Ok(());
    }
    let mut p = Parser::new(orig);
    let mut got: Vec<&str> = Vec::new();
    let op = match which {
        0 => Op::Split(pat.clone()),
        1 => Op::Rsplit(pat.clone()),
        2 => Op::SplitTerminator(pat.clone()),
        _ => Op::RsplitTerminator(pat.clone()),
    };
    let kind = loop {
        ensure!(got.len() <= orig.len() + 2, "{op:?} on {orig:?}: does not terminate, pieces so far {got:?}");
        match apply(p, &op) {
            Out::Ok(Some(Val::Str(v)), np) => {
                got.push(v);
                p = np;
            }
            Out::Ok(_, _) => return Err("split op without a value".into()),
            Out::Err(e) => break e.kind(),
        }
    };
    let want: Vec<&str> = match which {
        0 => orig.split(pt.as_str()).collect(),
        1 => orig.rsplit(pt.as_str()).collect(),
        // each piece that is followed by a delimiter
        2 => {
            let mut v: Vec<&str> = orig.split(pt.as_str()).collect();
            v.pop();
            v
        }
        // each piece that is preceded by a delimiter, from the back
        _ => {
            let mut v: Vec<&str> = orig.rsplit(pt.as_str()).collect();
            v.pop();
            v
        }
    };
    ensure!(got == want, "repeating {op:?} on {orig:?}: konst pieces {got:?}, expected {want:?}");
    if which < 2 {
        ensure!(kind == ErrorKind::SplitExhausted, "repeating {op:?} on {orig:?}: final error {kind:?}, expected SplitExhausted");
    }
    Ok(())
}

fn pats() -> Vec<Pat> {
    vec![
        Pat::S(",".into()),
        Pat::C(','),
        Pat::S("".into()),
        Pat::S("a".into()),
        Pat::C('é'),
        Pat::S(", ".into()),
        Pat::S("é,".into()),
        Pat::S(" ".into()),
        Pat::C('-'),
        Pat::S("aa".into()),
        Pat::S("a,a".into()),
    ]
}

fn all_ops(len: usize, rich: bool) -> Vec<Op> {
    let mut v = vec![Op::Trim, Op::TrimStart, Op::TrimEnd];
    let ps = pats();
    let ps = if rich { &ps[..] } else { &ps[..5] };
    for p in ps {
        v.push(Op::TrimMatches(p.clone()));
        v.push(Op::TrimStartMatches(p.clone()));
        v.push(Op::TrimEndMatches(p.clone()));
        v.push(Op::StripPrefix(p.clone()));
        v.push(Op::StripSuffix(p.clone()));
        v.push(Op::FindSkip(p.clone()));
        v.push(Op::RfindSkip(p.clone()));
        v.push(Op::Split(p.clone()));
        v.push(Op::Rsplit(p.clone()));
        v.push(Op::SplitTerminator(p.clone()));
        v.push(Op::RsplitTerminator(p.clone()));
        v.push(Op::SplitKeep(p.clone()));
    }
    for n in 0..=(len + 1).min(if rich { 6 } else { 2 }) {
        v.push(Op::Skip(n));
        v.push(Op::SkipBack(n));
    }
    if rich {
        // byte counts far beyond the length that are congruent to 1 modulo 2^8 / 2^16 / 2^32 (offsets are stored as u32)
        for n in [(1usize << 8) + 1, (1 << 16) + 1, (1 << 32) + 1, usize::MAX] {
            v.push(Op::Skip(n));
            v.push(Op::SkipBack(n));
        }
    }
    for t in if rich { vec![0u8, 1, 5, 8, 9, 10, 12] } else { vec![0, 1, 12] } {
        v.push(Op::Parse(t));
    }
    v
}

fn eval(ctx: &mut Ctx, c13: bool, c: Case) {
    ctx.case("parser_ops", &c, |ctx| {
        let mut w = Walk { moved_start: false, moved_end: false, err_then_ok: false, saw_err: false, err_with_base: false, both_trim_both_ends: false, last_piece: false };
        let r = run_case(&c, c13, &mut w);
        if w.saw_err {
            ctx.label("history_with_error");
        }
        if w.moved_start && w.moved_end {
            ctx.label("both_ends_moved");
        }
        if w.last_piece {
            ctx.label("split_last_piece");
        }
        let nt = if c13 { (w.moved_start && w.moved_end) || w.err_with_base || w.both_trim_both_ends } else { w.err_then_ok || w.last_piece || (w.moved_start && w.moved_end) };
        if nt && c.ops.len() >= 1 {
            ctx.nontrivial(if w.both_trim_both_ends { "two_sided_trim" } else if w.err_with_base { "error_with_base" } else if w.last_piece { "split_last_piece" } else { "mixed_ends" }, &c, || json!(c));
        }
        r
    });
}

fn originals(quick: bool) -> Vec<String> {
    let mut v = gen::strings(&["a", ",", " ", "é", "1", "-"], 3);
    for s in ["0000000000000000000000000000000000000000000007,x", "-000000000000000000000000000000000000000000000128é", "0000000000000000000000000000000000000001", "  a,b é,,漢  ", "12,-5;true", "  a  ", "a,a,a", "aa,aa", ",,", "-128,255,256", "truefalse1", "é,é,é", "\t1 , 2\n", "a,aa,a", "😀,😀", "\0", "a\0", "\0a,\0", "1\0", "\0 a \0", "true\0"] {
        v.push(s.to_string());
    }
    // byte order mark, Unicode white space, zero-width chars ...: only every second context in the quick tier
    v.extend(gen::special_char_strings().into_iter().enumerate().filter(|(i, _)| !quick || i % 2 == 0).map(|(_, s)| s));
    v
}

fn explore(ctx: &mut Ctx, c13: bool) {
    let quick = ctx.quick();
    let origs = originals(quick);
    let bases = [0usize, 7, 1 << 31];
    // depth 1 and 2: complete over the rich op set; depth 3 over the reduced op set on fewer originals
    for (oi, orig) in origs.iter().enumerate() {
        let ops = all_ops(orig.len(), true);
        for (bi, &base) in bases.iter().enumerate() {
            // quick tier: one base per original (rotating), thorough: all three
            if quick && bi != oi % 3 {
                continue;
            }
            for a in &ops {
                eval(ctx, c13, Case { orig: orig.clone(), base, ops: vec![a.clone()] });
                for b in &ops {
                    eval(ctx, c13, Case { orig: orig.clone(), base, ops: vec![a.clone(), b.clone()] });
                }
            }
        }
        if ctx.too_many() {
            return;
        }
    }
    ctx.exhaustive_part(&format!("{} originals (all strings <= {} symbols over {{a , ' ' é 1 -}} + 12 shaped ones) x bases {{0,7,2^31}} x all op sequences of depth 1-2 over {} op instances (every Parser method x 11 patterns, skip/skip_back 0..=6 and 2^8+1, 2^16+1, 2^32+1, usize::MAX, 7 parse types)", origs.len(), 3, all_ops(6, true).len()));
    let d3: Vec<&String> = origs.iter().filter(|s| s.chars().count() >= 3).step_by(if quick { 20 } else { 5 }).collect();
    for orig in &d3 {
        let ops = all_ops(orig.len(), false);
        for a in &ops {
            for b in &ops {
                for c in &ops {
                    eval(ctx, c13, Case { orig: (*orig).clone(), base: 7, ops: vec![a.clone(), b.clone(), c.clone()] });
                }
            }
        }
        if ctx.too_many() {
            return;
        }
    }
    ctx.exhaustive_part(&format!("{} originals x base 7 x all op sequences of depth 3 over the reduced set of {} op instances", d3.len(), all_ops(3, false).len()));
    // lead-byte sweep (depth 1, and depth 2 with skip / skip_back first): the first and last scalar of every UTF-8
    // lead byte inside a short original; skip(n) / skip_back(n) round to char boundaries, the pattern operations
    // compare encodings
    let sweep: Vec<String> = gen::lead_byte_strings().into_iter().enumerate().filter(|(i, _)| i % 8 >= 6 || (!quick && i % 8 >= 3)).map(|(_, s)| s).collect();
    for orig in &sweep {
        let mut ops: Vec<Op> = all_ops(orig.len(), false).into_iter().filter(|m| !matches!(m, Op::Skip(_) | Op::SkipBack(_))).collect();
        ops.extend(all_ops(orig.len(), true).into_iter().filter(|m| matches!(m, Op::Skip(_) | Op::SkipBack(_))));
        // the swept char itself as char and as &str pattern
        let c = orig.chars().find(|c| !c.is_ascii()).unwrap_or('x');
        for pat in [Pat::C(c), Pat::S(c.to_string())] {
            let p = || pat.clone();
            ops.extend([Op::TrimMatches(p()), Op::TrimStartMatches(p()), Op::TrimEndMatches(p()), Op::StripPrefix(p()), Op::StripSuffix(p()), Op::FindSkip(p()), Op::RfindSkip(p()),
                        Op::Split(p()), Op::Rsplit(p()), Op::SplitTerminator(p()), Op::RsplitTerminator(p()), Op::SplitKeep(p())]);
        }
        let skips: Vec<Op> = ops.iter().filter(|m| matches!(m, Op::Skip(_) | Op::SkipBack(_))).cloned().collect();
        for a in &ops {
            eval(ctx, c13, Case { orig: orig.clone(), base: 7, ops: vec![a.clone()] });
        }
        for a in &skips {
            for b in &ops {
                eval(ctx, c13, Case { orig: orig.clone(), base: 0, ops: vec![a.clone(), b.clone()] });
            }
        }
    }
    ctx.exhaustive_part(&format!("lead-byte sweep: {} originals around the first / last scalar of every UTF-8 lead byte x every op (depth 1) and skip/skip_back followed by every op (depth 2)", sweep.len()));
    if !c13 {
        // split protocols
        let mut n = 0u64;
        for orig in gen::strings(&["a", ",", "é"], if quick { 6 } else { 7 }) {
            for pat in [Pat::C(','), Pat::S(",".into()), Pat::S(",,".into()), Pat::S("a,".into()), Pat::C('é'), Pat::S("aa".into()), Pat::S("a,a".into())] {
                for which in 0..4u8 {
                    n += 1;
                    let cs = json!({"protocol": which, "orig": orig, "pat": pat});
                    ctx.case("split_protocol", &cs, |ctx| {
                        if orig.split(pat.text().as_str()).count() >= 2 {
                            ctx.nontrivial("protocol", &(which, &orig, &pat), || cs.clone());
                        }
                        protocol(&orig, &pat, which)
                    });
                }
            }
        }
        ctx.exhaustive_part(&format!("split/rsplit/split_terminator/rsplit_terminator protocols: {n} (string <= 6-7 symbols over {{a , é}}) x 7 delimiters runs to the final error"));
    }
    // random long histories
    let n = ctx.by_tier(60_000, 2_000_000);
    let strat = (
        proptest::collection::vec(0usize..8, 0..40),
        0usize..6,
        proptest::collection::vec((0usize..18, 0usize..11, 0usize..8), 1..13),
    );
    ctx.prop("parser_ops", n, strat, |ctx, v| {
        let c = fold_case(v);
        ctx.label("random");
        let mut w = Walk { moved_start: false, moved_end: false, err_then_ok: false, saw_err: false, err_with_base: false, both_trim_both_ends: false, last_piece: false };
        let r = run_case(&c, c13, &mut w);
        if (w.moved_start && w.moved_end) || w.err_with_base {
            ctx.nontrivial("random", &c, || json!(c));
        }
        r
    });
}

pub fn fold_case((syms, b, ops): &(Vec<usize>, usize, Vec<(usize, usize, usize)>)) -> Case {
    const SYM: [&str; 8] = ["a", ",", " ", "é", "1", "-", "true", "漢"];
    let orig: String = syms.iter().map(|&i| SYM[i]).collect();
    let base = [0usize, 1, 1000, 1 << 31][*b % 4];
    let base = if *b >= 4 { (u32::MAX as usize) - orig.len() } else { base };
    let ps = pats();
    let ops = ops
        .iter()
        .map(|&(k, p, n)| {
            let pat = ps[p].clone();
            match k {
                0 => Op::Trim,
                1 => Op::TrimStart,
                2 => Op::TrimEnd,
                3 => Op::TrimMatches(pat),
                4 => Op::TrimStartMatches(pat),
                5 => Op::TrimEndMatches(pat),
                6 => Op::StripPrefix(pat),
                7 => Op::StripSuffix(pat),
                8 => Op::FindSkip(pat),
                9 => Op::RfindSkip(pat),
                10 => Op::Split(pat),
                11 => Op::Rsplit(pat),
                12 => Op::SplitTerminator(pat),
                13 => Op::RsplitTerminator(pat),
                14 => Op::SplitKeep(pat),
                15 => Op::Skip(n),
                16 => Op::SkipBack(n),
                _ => Op::Parse([0u8, 1, 5, 8, 9, 10, 11, 12][n]),
            }
        })
        .collect();
    Case { orig, base, ops }
}

fn main() {
    kvh::on_thread(real_main);
}

fn real_main() {
    let args = kvh::parse_args("C13", "c13");
    let c13 = args.prop != "C14";
    let mut ctx = Ctx::new(args.clone(), if c13 { RULE13 } else { RULE14 });
    ctx.assume("base + len <= u32::MAX (Parser stores offsets as u32)");
    if let Some(p) = &args.replay {
        let (check, case) = kvh::load_replay(p);
        if check == "split_protocol" {
            let which = case["protocol"].as_u64().unwrap() as u8;
            let orig = case["orig"].as_str().unwrap().to_string();
            let pat: Pat = serde_json::from_value(case["pat"].clone()).unwrap();
            ctx.case("split_protocol", &case, |_| protocol(&orig, &pat, which));
        } else {
            let c: Case = match serde_json::from_value::<Case>(case.clone()) {
                Ok(c) => c,
                Err(_) => fold_case(&serde_json::from_value(case).expect("replay case")),
            };
            println!("replaying {:?}", c);
            let mut w = Walk { moved_start: false, moved_end: false, err_then_ok: false, saw_err: false, err_with_base: false, both_trim_both_ends: false, last_piece: false };
            ctx.case("parser_ops", &c, |_| run_case(&c, c13, &mut w));
        }
    } else {
        explore(&mut ctx, c13);
    }
    std::process::exit(ctx.finish());
}

//! C04 — pattern search finds the same first / last occurrence as std.
use konst::{slice as ks, string as kstr};
use kvh::{gen, Ctx};
use proptest::prelude::*;
use serde::{Deserialize, Serialize};
use serde_json::json;

const RULE: &str = "cases = (haystack bytes, needle bytes); oracle = naive windowed search (lowest / highest offset) for the byte functions through all applicable pattern kinds ([u8], [u8;N] N<=4, str, char), str::find/rfind/contains/split_once/rsplit_once for the string functions; derived functions must return the sub-slice cut at that offset (address+length); empty needle: forward find = Some(0), *_skip/*_keep = Some(this), split_once as std (rfind(\"\") offset not compared); non-trivial = needle occurs and (needle has a proper border or its first byte occurs before the first match), distinct by (haystack,needle)";

#[derive(Serialize, Deserialize, Debug, Clone, Hash)]
pub struct Case {
    hay: Vec<u8>,
    needle: Vec<u8>,
}

macro_rules! ensure {
    ($c:expr, $($fmt:tt)*) => { if !$c { return Err(format!($($fmt)*)); } };
}

fn same(a: &[u8], b: &[u8]) -> bool {
    a.len() == b.len() && (a.is_empty() || a.as_ptr() == b.as_ptr())
}
fn same_opt(a: Option<&[u8]>, b: Option<&[u8]>) -> bool {
    match (a, b) {
        (None, None) => true,
        (Some(a), Some(b)) => same(a, b),
        _ => false,
    }
}
fn sb(x: Option<&str>) -> Option<&[u8]> {
    x.map(|s| s.as_bytes())
}
fn show(b: &[u8]) -> String {
    match std::str::from_utf8(b) {
        Ok(s) => format!("{s:?}"),
        Err(_) => format!("{b:?}"),
    }
}
fn dopt(x: Option<&[u8]>, base: &[u8]) -> String {
    match x {
        None => "None".into(),
        Some(x) if x.is_empty() => "Some([])".into(),
        Some(x) => {
            let off = (x.as_ptr() as usize).wrapping_sub(base.as_ptr() as usize);
            format!("Some([{}..{}])", off, off.wrapping_add(x.len()))
        }
    }
}

struct Expect<'a> {
    find: Option<usize>,
    rfind: Option<usize>,
    find_skip: Option<&'a [u8]>,
    find_keep: Option<&'a [u8]>,
    rfind_skip: Option<&'a [u8]>,
    rfind_keep: Option<&'a [u8]>,
}

fn expect<'a>(h: &'a [u8], n: &[u8]) -> Expect<'a> {
    if n.is_empty() {
        return Expect { find: Some(0), rfind: None, find_skip: Some(h), find_keep: Some(h), rfind_skip: Some(h), rfind_keep: Some(h) };
    }
    let f = gen::naive_find(h, n);
    let r = gen::naive_rfind(h, n);
    Expect {
        find: f,
        rfind: r,
        find_skip: f.map(|p| &h[p + n.len()..]),
        find_keep: f.map(|p| &h[p..]),
        rfind_skip: r.map(|p| &h[..p]),
        rfind_keep: r.map(|p| &h[..p + n.len()]),
    }
}

/// all eight byte functions through one pattern kind
macro_rules! bytes_kind {
    ($kind:expr, $h:expr, $n:expr, $pat:expr, $e:expr) => {{
        let (h, n, e): (&[u8], &[u8], &Expect) = ($h, $n, $e);
        let empty = n.is_empty();
        let k = ks::bytes_find(h, $pat);
        ensure!(k == e.find, "bytes_find[{}]({}, {}): konst {:?} expected {:?}", $kind, show(h), show(n), k, e.find);
        let k = ks::bytes_contain(h, $pat);
        ensure!(k == e.find.is_some(), "bytes_contain[{}]({}, {}): konst {k}", $kind, show(h), show(n));
        if !empty {
            let k = ks::bytes_rfind(h, $pat);
            ensure!(k == e.rfind, "bytes_rfind[{}]({}, {}): konst {:?} expected {:?}", $kind, show(h), show(n), k, e.rfind);
            let k = ks::bytes_rcontain(h, $pat);
            ensure!(k == e.rfind.is_some(), "bytes_rcontain[{}]({}, {}): konst {k}", $kind, show(h), show(n));
        }
        let k = ks::bytes_find_skip(h, $pat);
        ensure!(same_opt(k, e.find_skip), "bytes_find_skip[{}]({}, {}): konst {} expected {}", $kind, show(h), show(n), dopt(k, h), dopt(e.find_skip, h));
        let k = ks::bytes_find_keep(h, $pat);
        ensure!(same_opt(k, e.find_keep), "bytes_find_keep[{}]({}, {}): konst {} expected {}", $kind, show(h), show(n), dopt(k, h), dopt(e.find_keep, h));
        let k = ks::bytes_rfind_skip(h, $pat);
        ensure!(same_opt(k, e.rfind_skip), "bytes_rfind_skip[{}]({}, {}): konst {} expected {}", $kind, show(h), show(n), dopt(k, h), dopt(e.rfind_skip, h));
        let k = ks::bytes_rfind_keep(h, $pat);
        ensure!(same_opt(k, e.rfind_keep), "bytes_rfind_keep[{}]({}, {}): konst {} expected {}", $kind, show(h), show(n), dopt(k, h), dopt(e.rfind_keep, h));
    }};
}

/// the ten string functions through one pattern kind (`&str` or `char`)
macro_rules! str_kind {
    ($kind:literal, $h:expr, $n:expr, $pat:expr, $e:expr) => {{
        let (h, n, e): (&str, &str, &Expect) = ($h, $n, $e);
        let hb = h.as_bytes();
        let empty = n.is_empty();
        // std as second oracle (it must agree with the naive search)
        let (sf, sr) = (h.find($pat), h.rfind($pat));
        ensure!(sf == e.find && (empty || sr == e.rfind), "harness: naive search disagrees with std on ({h:?},{n:?})");
        let k = kstr::find(h, $pat);
        ensure!(k == sf, "string::find[{}]({h:?}, {n:?}): konst {:?} std {:?}", $kind, k, sf);
        let k = kstr::contains(h, $pat);
        ensure!(k == h.contains($pat), "string::contains[{}]({h:?}, {n:?}): konst {k}", $kind);
        if !empty {
            let k = kstr::rfind(h, $pat);
            ensure!(k == sr, "string::rfind[{}]({h:?}, {n:?}): konst {:?} std {:?}", $kind, k, sr);
            let k = kstr::rcontains(h, $pat);
            ensure!(k == sr.is_some(), "string::rcontains[{}]({h:?}, {n:?}): konst {k}", $kind);
        }
        let k = sb(kstr::find_skip(h, $pat));
        ensure!(same_opt(k, e.find_skip), "string::find_skip[{}]({h:?}, {n:?}): konst {} expected {}", $kind, dopt(k, hb), dopt(e.find_skip, hb));
        let k = sb(kstr::find_keep(h, $pat));
        ensure!(same_opt(k, e.find_keep), "string::find_keep[{}]({h:?}, {n:?}): konst {} expected {}", $kind, dopt(k, hb), dopt(e.find_keep, hb));
        let k = sb(kstr::rfind_skip(h, $pat));
        ensure!(same_opt(k, e.rfind_skip), "string::rfind_skip[{}]({h:?}, {n:?}): konst {} expected {}", $kind, dopt(k, hb), dopt(e.rfind_skip, hb));
        let k = sb(kstr::rfind_keep(h, $pat));
        ensure!(same_opt(k, e.rfind_keep), "string::rfind_keep[{}]({h:?}, {n:?}): konst {} expected {}", $kind, dopt(k, hb), dopt(e.rfind_keep, hb));
        let (k, o) = (kstr::split_once(h, $pat), h.split_once($pat));
        ensure!(
            k.is_some() == o.is_some() && k.zip(o).map_or(true, |(k, o)| same(k.0.as_bytes(), o.0.as_bytes()) && same(k.1.as_bytes(), o.1.as_bytes())),
            "string::split_once[{}]({h:?}, {n:?}): konst {:?} std {:?}", $kind, k, o
        );
        let (k, o) = (kstr::rsplit_once(h, $pat), h.rsplit_once($pat));
        ensure!(
            k.is_some() == o.is_some() && k.zip(o).map_or(true, |(k, o)| same(k.0.as_bytes(), o.0.as_bytes()) && same(k.1.as_bytes(), o.1.as_bytes())),
            "string::rsplit_once[{}]({h:?}, {n:?}): konst {:?} std {:?}", $kind, k, o
        );
    }};
}

macro_rules! array_kinds {
    ($h:expr, $n:expr, $e:expr; $($N:literal)*) => {
        match $n.len() {
            $($N => {
                let a: [u8; $N] = $n.try_into().unwrap();
                bytes_kind!(concat!("[u8;", stringify!($N), "]"), $h, $n, &a, $e)
            })*
            _ => {}
        }
    };
}

pub fn run_case(c: &Case) -> Result<(), String> {
    let (h, n): (&[u8], &[u8]) = (&c.hay, &c.needle);
    let e = expect(h, n);
    bytes_kind!("[u8]", h, n, n, &e);
    // the [u8; N] pattern kind for every N up to 48 (N is a const parameter of the searched function)
    array_kinds!(h, n, &e; 0 1 2 3 4 5 6 7 8 9 10 11 12 13 14 15 16 17 18 19 20 21 22 23 24 25 26 27 28 29 30 31 32 33 34 35 36 37 38 39 40 41 42 43 44 45 46 47 48);
    if let Ok(ns) = std::str::from_utf8(n) {
        bytes_kind!("str", h, n, ns, &e);
        let mut cs = ns.chars();
        let one_char = match (cs.next(), cs.next()) {
            (Some(ch), None) => Some(ch),
            _ => None,
        };
        if let Some(ch) = one_char {
            bytes_kind!("char", h, n, &ch, &e);
        }
        if let Ok(hs) = std::str::from_utf8(h) {
            str_kind!("&str", hs, ns, ns, &e);
            if let Some(ch) = one_char {
                str_kind!("char", hs, ns, ch, &e);
            }
        }
    }
    Ok(())
}

fn classify(ctx: &mut Ctx, c: &Case) {
    let (h, n): (&[u8], &[u8]) = (&c.hay, &c.needle);
    if n.is_empty() {
        ctx.label("needle_empty");
        return;
    }
    if n.len() > h.len() {
        ctx.label("needle_longer_than_haystack");
    }
    match gen::naive_find(h, n) {
        None => ctx.label("absent"),
        Some(p) => {
            let border = gen::has_border(n);
            let partial = h[..p].contains(&n[0]);
            if border {
                ctx.label("needle_self_overlapping");
            }
            if partial {
                ctx.label("partial_match_before_first");
            }
            if border && partial {
                ctx.label("border_and_partial");
            }
            if border || partial {
                ctx.nontrivial(if std::str::from_utf8(h).map_or(false, |s| !s.is_ascii()) { "utf8" } else { "bytes" }, c, || json!({"hay": show(h), "needle": show(n)}));
            } else {
                ctx.label("present_trivial");
            }
        }
    }
}

fn eval(ctx: &mut Ctx, hay: &[u8], needle: &[u8]) {
    let c = Case { hay: hay.to_vec(), needle: needle.to_vec() };
    ctx.case("find", &c, |ctx| {
        classify(ctx, &c);
        run_case(&c)
    });
}

/// long inputs: the case is recorded as "in flight" while it runs
fn eval_deep(ctx: &mut Ctx, hay: &[u8], needle: &[u8]) {
    ctx.inflight("find", &Case { hay: hay.to_vec(), needle: needle.to_vec() });
    eval(ctx, hay, needle);
    ctx.landed();
}

fn product(ctx: &mut Ctx, hays: &[Vec<u8>], needles: &[Vec<u8>]) {
    for h in hays {
        for n in needles {
            eval(ctx, h, n);
        }
        if ctx.too_many() {
            return;
        }
    }
}

fn explore(ctx: &mut Ctx) {
    let q = ctx.quick();
    // bytes over {a,b}
    let (hl, nl) = if q { (10, 4) } else { (13, 6) };
    product(ctx, &gen::seqs(b"ab", hl), &gen::seqs(b"ab", nl));
    ctx.exhaustive_part(&format!("haystacks over {{a,b}} len<={hl} x needles len<={nl}"));
    let (hl, nl) = if q { (7, 4) } else { (8, 5) };
    product(ctx, &gen::seqs(b"abc", hl), &gen::seqs(b"abc", nl));
    ctx.exhaustive_part(&format!("haystacks over {{a,b,c}} len<={hl} x needles len<={nl}"));
    // non-UTF-8 bytes
    product(ctx, &gen::seqs(&[0u8, 0xff, 0xc3], if q { 5 } else { 7 }), &gen::seqs(&[0u8, 0xff, 0xc3], 3));
    ctx.exhaustive_part("haystacks over {0x00,0xff,0xc3} x needles len<=3");
    // one byte of every UTF-8 byte class: ASCII, continuation (low / high), 2-, 3-, 4-byte lead, never-valid
    product(ctx, &gen::seqs(&[b'a', 0x80, 0xbf, 0xc3], if q { 6 } else { 7 }), &gen::seqs(&[b'a', 0x80, 0xbf, 0xc3], 3));
    product(ctx, &gen::seqs(&[0xa9, 0xe0, 0xf0, 0xff], if q { 5 } else { 6 }), &gen::seqs(&[0xa9, 0xe0, 0xf0, 0xff], 3));
    ctx.exhaustive_part("haystacks over {a,0x80,0xBF,0xC3} and over {0xA9,0xE0,0xF0,0xFF} (every UTF-8 byte class) x needles len<=3");
    // byte needles that are not char-aligned inside valid UTF-8 text: every contiguous byte window (1..=4 bytes) of the haystack
    for h in gen::strings(&gen::TEXT4, if q { 4 } else { 5 }) {
        let hb = h.as_bytes();
        for w in 1..=4usize {
            for st in 0..hb.len().saturating_sub(w - 1) {
                eval(ctx, hb, &hb[st..st + w]);
            }
        }
    }
    ctx.exhaustive_part("UTF-8 haystacks over {a,é,漢,😀} x every byte window (1..=4 bytes, char-aligned or not) of the haystack as [u8] needle");
    // chars whose encodings differ in exactly one byte position (first, middle or last), as haystack and as pattern
    for (set, strs) in gen::one_byte_partner_strings(if q { 3 } else { 4 }) {
        for h in &strs {
            for c in &set {
                let mut buf = [0u8; 4];
                eval(ctx, h.as_bytes(), c.encode_utf8(&mut buf).as_bytes());
            }
            // two-char patterns over the same set (self-overlap next to a partner char)
            for n in strs.iter().filter(|n| n.chars().count() == 2) {
                eval(ctx, h.as_bytes(), n.as_bytes());
            }
        }
    }
    ctx.exhaustive_part("one-byte partners: strings of <= 3-4 chars over {c, one partner per byte position of c's encoding, 'a'} for c in {é, 个, 😀} x every member and every 2-char string over the set as pattern (char, str and byte kinds)");
    // special chars: as text and as pattern (whole char, str and byte kinds), next to ASCII white space
    for s in gen::special_char_strings() {
        let hb = s.as_bytes();
        for c in s.chars() {
            let mut buf = [0u8; 4];
            eval(ctx, hb, c.encode_utf8(&mut buf).as_bytes());
        }
        eval(ctx, hb, b" ");
        eval(ctx, hb, b"a");
    }
    ctx.exhaustive_part("16 special chars (BOM, U+FFFD, Unicode white space / separators, zero-width ...) in 6 contexts x {each of its chars, ' ', 'a'} as pattern");
    // lead-byte sweep: the char itself (char and str kinds), its successor, its first byte and its tail bytes as patterns
    for s in gen::lead_byte_strings() {
        let hb = s.as_bytes();
        for c in s.chars() {
            let mut buf = [0u8; 4];
            let enc = c.encode_utf8(&mut buf).as_bytes().to_vec();
            eval(ctx, hb, &enc);
            eval(ctx, hb, &enc[..1]);
            if enc.len() > 1 {
                eval(ctx, hb, &enc[1..]);
            }
        }
    }
    ctx.exhaustive_part("lead-byte sweep: first / last scalar of each of the 51 UTF-8 lead bytes x 8 short contexts x {each of its chars, that char's lead byte, its continuation bytes} as pattern");
    // UTF-8 text, one char of each length
    let b = |v: Vec<String>| v.into_iter().map(String::into_bytes).collect::<Vec<_>>();
    product(ctx, &b(gen::strings(&gen::TEXT4, if q { 5 } else { 6 })), &b(gen::strings(&gen::TEXT4, 3)));
    ctx.exhaustive_part("strings over {a,é,漢,😀} x str needles <=3 chars (char pattern kind when 1 char)");
    // chars sharing lead bytes: byte-level partial matches inside multi-byte chars
    let share = ["é", "è", "漢", "漣"]; // C3A9 C3A8 / E6BCA2 E6BCA3
    product(ctx, &b(gen::strings(&share, if q { 5 } else { 6 })), &b(gen::strings(&share, 3)));
    ctx.exhaustive_part("strings over {é,è,漢,漣} (shared lead bytes) x needles <=3 chars");
    if ctx.too_many() {
        return;
    }
    // near-miss families beyond the exhaustive bound: a copy of the first k bytes of the needle directly
    // followed (forward) / preceded (reverse) by a full occurrence, for every k, needles up to 24 bytes
    let shapes: [&[u8]; 6] = [b"abcdefghijklmnopqrstuvwx", b"aaaaaaaaaaaaaaaaaaaaaaab", b"abababababababababababac", b"abcabcabcabcabcabcabcabd", b"https://example.org/path", b"aabaabaabaabaabaabaabaac"];
    for shape in shapes {
        for len in 1..=shape.len() {
            let needle = &shape[..len];
            for k in 0..=len {
                for pad in [&b""[..], b"z", b"a"] {
                    let mut fwd: Vec<u8> = pad.to_vec();
                    fwd.extend_from_slice(&needle[..k]);
                    fwd.extend_from_slice(needle);
                    fwd.extend_from_slice(pad);
                    eval(ctx, &fwd, needle);
                    let mut bwd: Vec<u8> = pad.to_vec();
                    bwd.extend_from_slice(needle);
                    bwd.extend_from_slice(&needle[len - k..]);
                    bwd.extend_from_slice(pad);
                    eval(ctx, &bwd, needle);
                    // the near miss alone (no occurrence)
                    let mut miss: Vec<u8> = needle[..k].to_vec();
                    miss.extend_from_slice(pad);
                    miss.extend_from_slice(&needle[..k]);
                    eval(ctx, &miss, needle);
                }
            }
        }
        if ctx.too_many() {
            return;
        }
    }
    // long needles with exactly one differing byte in the haystack copy (absent), next to a real copy
    let long: &[u8] = b"0123456789abcdefghijklmnopqrstuvwxyzABCDEFGHIJKL";
    for len in 1..=long.len() {
        let needle = &long[..len];
        for j in 0..len {
            let mut wrong = needle.to_vec();
            wrong[j] ^= 0x20;
            eval(ctx, &wrong, needle);
            let mut both = wrong.clone();
            both.extend_from_slice(needle);
            both.extend_from_slice(&wrong);
            eval(ctx, &both, needle);
        }
    }
    ctx.exhaustive_part("near-miss families: 6 needle shapes x every prefix length 1..=24 x every partial-match length k x 3 paddings, forward and mirrored");
    // periodic needles with long periods: unit = x y^k; the real occurrence overlaps a long partial match and starts
    // exactly one period into it (skip tables / masks that cover only the first 8, 16, 32, 64, 128 pattern bytes slip
    // here), for every k up to 140 and a few larger ones, forward and mirrored
    {
        let ks: Vec<usize> = (0..=140usize).chain([191, 192, 200, 255, 256, 257, 300]).collect();
        for &k in &ks {
            let mut unit = vec![b'a'];
            unit.extend(std::iter::repeat(b'b').take(k));
            let shapes: Vec<(Vec<u8>, Vec<u8>)> = vec![
                // needle = U U c, haystack = U U U c
                ([unit.clone(), unit.clone(), b"c".to_vec()].concat(), [unit.clone(), unit.clone(), unit.clone(), b"c".to_vec()].concat()),
                // needle = U a c, haystack = U U a c
                ([unit.clone(), b"ac".to_vec()].concat(), [unit.clone(), unit.clone(), b"ac".to_vec()].concat()),
                // needle = U U, haystack = U x U U (a near miss first)
                ([unit.clone(), unit.clone()].concat(), [unit.clone(), b"x".to_vec(), unit.clone(), unit.clone(), unit.clone()].concat()),
            ];
            for (needle, hay) in shapes {
                eval(ctx, &hay, &needle);
                let (rn, rh): (Vec<u8>, Vec<u8>) = (needle.iter().rev().copied().collect(), hay.iter().rev().copied().collect());
                eval(ctx, &rh, &rn);
            }
        }
        ctx.exhaustive_part("periodic needles: unit = a b^k for k in 0..=140 and 7 larger values; needle / haystack shapes (UUc in UUUc, Uac in UUac, UU in UxUUU), forward and mirrored");
    }
    // haystacks longer than 2^16: the only occurrence starts at an offset around 2^8, 2^15, 2^16 or at the very end
    {
        let total = 70_000usize;
        for needle in [&b"xy"[..], b"x", b"xyzxyzxyw", "\u{4e2a}".as_bytes()] {
            for at in [0usize, 254, 255, 256, 32_766, 32_767, 32_768, 65_534, 65_535, 65_536, 65_537, total - needle.len() - 1, total - needle.len()] {
                let mut hay = vec![b'a'; total];
                hay[at..at + needle.len()].copy_from_slice(needle);
                eval_deep(ctx, &hay, needle);
                // and a second occurrence further right (rfind must report that one)
                if at + 2 * needle.len() + 300 < total {
                    hay[at + needle.len() + 299..at + 2 * needle.len() + 299].copy_from_slice(needle);
                    eval_deep(ctx, &hay, needle);
                }
            }
        }
        ctx.exhaustive_part("haystacks of 70000 bytes x 4 needles whose only / last occurrence starts at offsets around 2^8, 2^15, 2^16 and at the end");
    }
    // random longer
    let n = ctx.by_tier(150_000, 3_000_000);
    let sym = (2u8..=8).prop_flat_map(|k| {
        (
            proptest::collection::vec(0u8..k, 0..64),
            proptest::collection::vec(0u8..k, 0..20),
            proptest::collection::vec(0u8..k, 0..3),
            any::<bool>(),
        )
    });
    ctx.prop("find", n, sym, |ctx, v| {
        let c = fold_case(v);
        ctx.label("random");
        classify(ctx, &c);
        run_case(&c)
    });
    // dense bytes: short needles (1..=4 bytes) over all 256 byte values
    let dense = (proptest::collection::vec(any::<u8>(), 0..24), proptest::collection::vec(any::<u8>(), 1..5), any::<bool>());
    ctx.prop("find_dense", n, dense, |ctx, v| {
        let c = dense_case(v);
        ctx.label("random_dense");
        classify(ctx, &c);
        run_case(&c)
    });
    // and exhaustively: every 2-byte needle (x, y) with x, y in a 32-value spread set against haystacks made of two
    // other such pairs followed by the needle
    let spread: Vec<u8> = (0..32u32).map(|i| (i * 8 + i / 4) as u8).collect();
    for (i, &x) in spread.iter().enumerate() {
        for (j, &y) in spread.iter().enumerate() {
            let (p, q) = (spread[(i * 7 + j + 1) % 32], spread[(j * 5 + i + 3) % 32]);
            for hay in [vec![p, q, x, y], vec![q, p, q, x, y, p], vec![p, p, q, q]] {
                eval(ctx, &hay, &[x, y]);
            }
        }
    }
    ctx.exhaustive_part("all 2-byte needles over a 32-value spread of byte values (step ~8) x 3 haystacks of other spread pairs");
}

/// dense random case: arbitrary byte values (matchers that compare sums / hashes / checksums instead of bytes only
/// go wrong when many distinct byte values are present), needle planted at the end when `plant`
pub fn dense_case((h, n, plant): &(Vec<u8>, Vec<u8>, bool)) -> Case {
    let mut hay = h.clone();
    if *plant {
        hay.extend_from_slice(n);
        hay.push(h.first().copied().unwrap_or(0));
    }
    Case { hay, needle: n.clone() }
}

/// random case: haystack = random symbols with the needle (or a near-miss prefix of it) planted
pub fn fold_case((h, n, extra, plant): &(Vec<u8>, Vec<u8>, Vec<u8>, bool)) -> Case {
    // two symbol tables: ASCII letters, or one byte of every UTF-8 byte class (continuation, lead, never-valid bytes)
    let table: &[u8; 8] = if extra.len() == 2 { &[b'a', 0x80, 0xbf, 0xc3, 0xe0, 0xf0, 0xff, 0xa9] } else { b"abcdefgh" };
    let m = |x: &u8| table[(*x % 8) as usize];
    let mut hay: Vec<u8> = h.iter().map(m).collect();
    let needle: Vec<u8> = n.iter().map(m).collect();
    if *plant && !needle.is_empty() {
        // near miss (a prefix whose length comes from `extra`) then a full match appended, then a suffix near miss
        let k = extra.first().map_or(needle.len() - 1, |x| (*x as usize * 7 + extra.len() * 3) % (needle.len() + 1));
        hay.extend_from_slice(&needle[..k]);
        hay.extend_from_slice(&needle);
        hay.extend_from_slice(&needle[needle.len() - k..]);
        hay.extend(extra.iter().skip(1).map(m));
    }
    Case { hay, needle }
}

fn main() {
    kvh::on_thread(real_main);
}

fn real_main() {
    let args = kvh::parse_args("C04", "c04");
    let mut ctx = Ctx::new(args.clone(), RULE);
    if let Some(p) = &args.replay {
        let (_check, case) = kvh::load_replay(p);
        let c: Case = match serde_json::from_value::<Case>(case.clone()) {
            Ok(c) => c,
            Err(_) => fold_case(&serde_json::from_value(case).expect("replay case")),
        };
        println!("replaying hay={} needle={}", show(&c.hay), show(&c.needle));
        ctx.case("find", &c, |_| run_case(&c));
    } else {
        explore(&mut ctx);
    }
    std::process::exit(ctx.finish());
}

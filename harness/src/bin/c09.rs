//! C09 — range iteration yields exactly the values std ranges yield.
use konst::iter::{for_each, into_iter};
use konst::range as kr;
use kvh::{ostep, Ctx};
use proptest::prelude::*;
use serde::{Deserialize, Serialize};
use serde_json::json;

include!("../kiter.rs");
impl_kiter!([T: konst::iter::Step] kr::RangeIter<T>, T);
impl_kiter!([T: konst::iter::Step] kr::RangeIterRev<T>, T);
impl_kiter!([T: konst::iter::Step] kr::RangeInclusiveIter<T>, T);
impl_kiter!([T: konst::iter::Step] kr::RangeInclusiveIterRev<T>, T);

const RULE: &str = "cases = (type, start, end, a..b | a..=b | a.. , history pattern of front/back steps run 2 steps past exhaustion or to a step cap); oracle = core::ops::{Range,RangeInclusive,RangeFrom} iterators stepped with next/next_back, through iter::into_iter! (by value and by reference), its .rev() (roles swapped), .rev().rev(), and iter::for_each! with and without rev(), and for_range! (integer types, a..b, with break / continue in the body); a.. is never asked to step past MAX in builds with overflow checks (std and konst both panic there), and is stepped 3 items past MAX in the release build (integers: both wrap; char: std panics in every build, listed finding); non-trivial = range touches MIN/MAX/the surrogate gap and the history uses both ends, or the range is inverted/empty; distinct by the whole tuple";

#[derive(Serialize, Deserialize, Debug, Clone, Copy, Hash, PartialEq, Eq)]
enum Ty {
    U8,
    I8,
    U16,
    I16,
    U32,
    I32,
    U64,
    I64,
    U128,
    I128,
    Usize,
    Isize,
    Char,
}
const WIDE: [Ty; 10] = [Ty::U16, Ty::I16, Ty::U32, Ty::I32, Ty::U64, Ty::I64, Ty::U128, Ty::I128, Ty::Usize, Ty::Isize];

#[derive(Serialize, Deserialize, Debug, Clone, Copy, Hash, PartialEq, Eq)]
enum Form {
    Exclusive,
    Inclusive,
    From,
}

/// a bound = anchor + offset (wrapping in the type): anchor 0 = MIN, 1 = the type's midpoint
/// (0 for signed types, 2^(bits-1) for unsigned ones, the surrogate gap for char: offsets >= 0 count
/// from U+E000, negative ones back from U+D7FF), 2 = MAX
#[derive(Serialize, Deserialize, Debug, Clone, Copy, Hash, PartialEq, Eq)]
struct Bound {
    anchor: u8,
    off: i64,
}

#[derive(Serialize, Deserialize, Debug, Clone, Hash)]
pub struct Case {
    ty: Ty,
    form: Form,
    a: Bound,
    b: Bound,
    /// step i goes to the back iff bit (i % period) of pattern is set
    pattern: u64,
    period: u32,
    cap: u32,
}

macro_rules! ensure {
    ($c:expr, $($fmt:tt)*) => { if !$c { return Err(format!($($fmt)*)); } };
}

trait Num: konst::iter::Step + Copy + PartialEq + PartialOrd + std::fmt::Debug + 'static {
    fn bound(b: Bound) -> Self;
    fn touches_edge(a: Self, b: Self) -> bool;
    /// how many values x satisfy a <= x < MAX (capped), for `a..`
    fn room_below_max(a: Self) -> u128;
    /// primitive integers: `a..` follows the overflow-check setting of the build (panic with checks, wrap without)
    const IS_INT: bool = true;
    /// `konst::for_range!{x in a..b => ..}` capped at `cap` items, visiting order; with `skip_odd` every second
    /// iteration leaves through `continue` before the push (None: the macro does not accept this type)
    fn for_range(_a: Self, _b: Self, _cap: u32, _skip_odd: bool) -> Option<Vec<Self>> {
        None
    }
}
macro_rules! for_range_body {
    ($a:ident, $b:ident, $cap:ident, $skip_odd:ident) => {{
        let mut got = Vec::new();
        let mut n = 0u32;
        konst::for_range! {x in $a..$b =>
            if n >= $cap { break; }
            n += 1;
            if $skip_odd && n % 2 == 0 { continue; }
            got.push(x);
        }
        Some(got)
    }};
}
macro_rules! impl_num {
    ($($t:ty),*) => {$(
        impl Num for $t {
            fn bound(b: Bound) -> $t {
                let base: $t = match b.anchor {
                    0 => <$t>::MIN,
                    1 => <$t>::MIN.wrapping_add((1 as $t) << (<$t>::BITS - 1)),
                    2 => <$t>::MAX,
                    // 10 + k: 2^k ; 150 + k: -(2^k) (wrapping for unsigned types); k taken modulo the bit width
                    a if a >= 150 => ((1 as $t) << ((a as u32 - 150) % <$t>::BITS)).wrapping_neg(),
                    a => (1 as $t) << ((a as u32 - 10) % <$t>::BITS),
                };
                base.wrapping_add(b.off as $t)
            }
            fn touches_edge(a: $t, b: $t) -> bool {
                a == <$t>::MIN || b == <$t>::MAX || a == <$t>::MAX || b == <$t>::MIN
            }
            fn room_below_max(a: $t) -> u128 {
                (<$t>::MAX as i128).wrapping_sub(a as i128) as u128
            }
            fn for_range(a: $t, b: $t, cap: u32, skip_odd: bool) -> Option<Vec<$t>> {
                for_range_body!(a, b, cap, skip_odd)
            }
        }
    )*};
}
impl_num!(u8, i8, u16, i16, u32, i32, u64, i64, usize, isize, i128);
impl Num for u128 {
    fn bound(b: Bound) -> u128 {
        let base: u128 = match b.anchor {
            0 => 0,
            1 => 1u128 << 127,
            2 => u128::MAX,
            a if a >= 150 => (1u128 << ((a as u32 - 150) % 128)).wrapping_neg(),
            a => 1u128 << ((a as u32 - 10) % 128),
        };
        base.wrapping_add(b.off as u128)
    }
    fn touches_edge(a: u128, b: u128) -> bool {
        a == 0 || b == u128::MAX || a == u128::MAX || b == 0
    }
    fn room_below_max(a: u128) -> u128 {
        u128::MAX - a
    }
    fn for_range(a: u128, b: u128, cap: u32, skip_odd: bool) -> Option<Vec<u128>> {
        for_range_body!(a, b, cap, skip_odd)
    }
}
impl Num for char {
    const IS_INT: bool = false;
    fn bound(b: Bound) -> char {
        let n: i64 = match b.anchor {
            0 => b.off.rem_euclid(0x110000),
            1 => if b.off >= 0 { 0xE000 + b.off % 0x1000 } else { 0xD800 - ((-b.off) % 0x1000) },
            2 => 0x10FFFF - b.off.rem_euclid(0x110000),
            a => ((1i64 << ((a as u32 - 10) % 20)) + b.off).rem_euclid(0x110000),
        };
        // anchor 0 / 2 offsets landing in the gap are moved past it
        let n = if (0xD800..0xE000).contains(&n) { n + 0x800 } else { n };
        char::from_u32(n as u32).expect("char bound")
    }
    fn touches_edge(a: char, b: char) -> bool {
        let gap = |c: char| matches!(c as u32, 0xD7FE..=0xE001);
        a == '\0' || b == char::MAX || a == char::MAX || b == '\0' || gap(a) || gap(b) || ((a as u32) < 0xD800 && (b as u32) > 0xDFFF)
    }
    fn room_below_max(a: char) -> u128 {
        (0x10FFFF - a as u32) as u128
    }
}

fn back_at(c: &Case, i: u32) -> bool {
    (c.pattern >> (i % c.period.max(1))) & 1 == 1
}

fn check<T: Num>(c: &Case) -> Result<(), String>
where
    std::ops::Range<T>: DoubleEndedIterator<Item = T> + Clone,
    std::ops::RangeInclusive<T>: DoubleEndedIterator<Item = T> + Clone,
    std::ops::RangeFrom<T>: Iterator<Item = T> + Clone,
{
    let (a, b) = (T::bound(c.a), T::bound(c.b));
    let cap = c.cap;
    macro_rules! double_ended {
        ($range:expr, $name:literal) => {{
            let mut o = $range;
            let mut k = into_iter!($range);
            let mut kref = into_iter!(&$range);
            let mut krev = into_iter!($range).rev();
            let mut krr = into_iter!($range).rev().rev();
            let mut o2 = $range;
            let mut i = 0u32;
            let mut extra = 0;
            while i < cap && extra < 2 {
                let back = back_at(c, i);
                let ov = ostep(&mut o, back);
                // copy independence: a copy stepped the other way first
                let mut cp = k.copy();
                let _ = cp.step(!back);
                let kv = k.step(back);
                ensure!(kv == ov, "{} {:?},{:?} step {i} back={back}: konst {:?} std {:?}", $name, a, b, kv, ov);
                let kv = kref.step(back);
                ensure!(kv == ov, "&{} {:?},{:?} step {i} back={back}: konst {:?} std {:?}", $name, a, b, kv, ov);
                let kv = krr.step(back);
                ensure!(kv == ov, "{}.rev().rev() {:?},{:?} step {i} back={back}: konst {:?} std {:?}", $name, a, b, kv, ov);
                // reversed type: its front is std's back
                let ov2 = ostep(&mut o2, !back);
                let kv = krev.step(back);
                ensure!(kv == ov2, "{}.rev() {:?},{:?} step {i} back={back}: konst {:?} std {:?}", $name, a, b, kv, ov2);
                if ov.is_none() {
                    extra += 1;
                }
                i += 1;
            }
            // the macros (single direction), capped by `cap` items
            let want: Vec<T> = $range.take(cap as usize).collect();
            let mut got: Vec<T> = Vec::new();
            let mut n = 0u32;
            for_each! {x in $range =>
                if n >= cap { break; }
                n += 1;
                got.push(x);
            }
            ensure!(got == want, "for_each!{{x in {} {:?},{:?}}}: konst {:?} std {:?}", $name, a, b, got, want);
            let want: Vec<T> = $range.rev().take(cap as usize).collect();
            let mut got: Vec<T> = Vec::new();
            let mut n = 0u32;
            for_each! {x in $range, rev() =>
                if n >= cap { break; }
                n += 1;
                got.push(x);
            }
            ensure!(got == want, "for_each!{{x in {} {:?},{:?}, rev()}}: konst {:?} std {:?}", $name, a, b, got, want);
            let r = $range;
            let mut got: Vec<T> = Vec::new();
            let mut n = 0u32;
            for_each! {x in &r, rev() =>
                if n >= cap { break; }
                n += 1;
                got.push(x);
            }
            ensure!(got == want, "for_each!{{x in &{} {:?},{:?}, rev()}}: konst {:?} std {:?}", $name, a, b, got, want);
        }};
    }
    match c.form {
        Form::Exclusive => {
            double_ended!(a..b, "a..b");
            for skip_odd in [false, true] {
                if let Some(got) = T::for_range(a, b, cap, skip_odd) {
                    let want: Vec<T> = (a..b).take(cap as usize).enumerate().filter(|(i, _)| !(skip_odd && i % 2 == 1)).map(|(_, x)| x).collect();
                    ensure!(got == want, "for_range!{{x in {:?}..{:?}}} (continue on every second item: {skip_odd}): konst {:?} std {:?}", a, b, got, want);
                }
            }
        }
        Form::Inclusive => double_ended!(a..=b, "a..=b"),
        Form::From => {
            // `room` values lie in a..MAX (MAX itself excluded): std can yield exactly those without
            // computing MAX+1.  Manual stepping: never ask for MAX itself.
            let room = T::room_below_max(a);
            let n = (cap as u128).min(room) as usize;
            let want: Vec<T> = (a..).take(n).collect();
            let mut k = into_iter!(a..);
            let mut got = Vec::new();
            for _ in 0..n {
                let cp = k.copy();
                match cp.next() {
                    Some((x, nx)) => {
                        got.push(x);
                        k = nx;
                    }
                    None => break,
                }
            }
            ensure!(got == want, "into_iter!({:?}..) first {n}: konst {:?} std {:?}", a, got, want);
            // through the macros with take(m): m = n-1 never touches MAX in either implementation
            if n >= 1 {
                let m = n - 1;
                let want: Vec<T> = (a..).take(m).collect();
                let mut got: Vec<T> = Vec::new();
                for_each! {x in a.., take(m) => got.push(x); }
                ensure!(got == want, "for_each!{{x in {:?}.., take({m})}}: konst {:?} std {:?}", a, got, want);
                let r = a..;
                let mut got: Vec<T> = Vec::new();
                for_each! {x in &r, take(m) => got.push(x); }
                ensure!(got == want, "for_each!{{x in &({:?}..), take({m})}}: konst {:?} std {:?}", a, got, want);
            }
            // builds without overflow checks (release): std's RangeFrom over a primitive integer wraps at MAX
            // (documented: "respects the overflow checks profile"), and so must konst's
            if T::IS_INT && !cfg!(debug_assertions) && room < cap as u128 {
                let m = room as usize + 3;
                let want: Vec<T> = (a..).take(m).collect();
                let mut k = into_iter!(a..);
                let mut got = Vec::new();
                for _ in 0..m {
                    match k.copy().next() {
                        Some((x, nx)) => {
                            got.push(x);
                            k = nx;
                        }
                        None => break,
                    }
                }
                ensure!(got == want, "into_iter!({:?}..) stepped past MAX without overflow checks: konst {:?} std {:?}", a, got, want);
                let mut got: Vec<T> = Vec::new();
                for_each! {x in a.., take(m) => got.push(x); }
                ensure!(got == want, "for_each!{{x in {:?}.., take({m})}} past MAX without overflow checks: konst {:?} std {:?}", a, got, want);
            }
            // take(room): std yields a..MAX without overflow; see known finding `take-pulls-one-extra-item`
            if (room as u128) <= cap as u128 {
                let m = room as usize;
                let want: Vec<T> = (a..).take(m).collect();
                let got = kvh::catch(|| {
                    let mut got: Vec<T> = Vec::new();
                    for_each! {x in a.., take(m) => got.push(x); }
                    got
                });
                match got {
                    Ok(got) => ensure!(got == want, "for_each!{{x in {:?}.., take({m})}}: konst {:?} std {:?}", a, got, want),
                    Err(msg) => return Err(format!("TAKE_EXTRA_PULL for_each!{{x in {:?}.., take({m})}} panicked ({msg}); std yields {} values up to MAX-1 without overflow", a, want.len())),
                }
            }
            // char: std's RangeFrom<char> panics in every build when it has to step past char::MAX (Step::forward of char
            // is the checked default), it never wraps.  With overflow checks konst panics as well (compared above by
            // never asking for MAX); without them this asks for 3 items beyond.
            if !T::IS_INT && !cfg!(debug_assertions) && room < cap as u128 {
                let m = room as usize + 3;
                let want = kvh::catch(|| (a..).take(m).collect::<Vec<T>>());
                let got = kvh::catch(|| {
                    let mut k = into_iter!(a..);
                    let mut got = Vec::new();
                    for _ in 0..m {
                        match k.copy().next() {
                            Some((x, nx)) => {
                                got.push(x);
                                k = nx;
                            }
                            None => break,
                        }
                    }
                    got
                });
                match (want, got) {
                    (Err(_), Err(_)) => {}
                    (Ok(w), Ok(g)) => ensure!(g == w, "into_iter!({:?}..) stepped past MAX: konst {:?} std {:?}", a, g, w),
                    (Ok(w), Err(msg)) => return Err(format!("into_iter!({:?}..) stepped past MAX: konst panicked ({msg}), std yields {:?}", a, w)),
                    (Err(_), Ok(g)) => {
                        // alternative model of the listed finding: a..=MAX, then '\0', '\u{1}'
                        let tail = format!("{:?}", &g[g.len().saturating_sub(3)..]);
                        let wrapped = g.len() == m && tail == "['\\u{10ffff}', '\\0', '\\u{1}']";
                        return Err(format!("{} into_iter!({:?}..) asked for {m} items: std panics when it has to step past char::MAX, konst yields {:?}", if wrapped { "CHAR_WRAP" } else { "no panic:" }, a, g));
                    }
                }
            }
        }
    }
    Ok(())
}

pub fn run_case(c: &Case) -> Result<(), String> {
    match c.ty {
        Ty::U8 => check::<u8>(c),
        Ty::I8 => check::<i8>(c),
        Ty::U16 => check::<u16>(c),
        Ty::I16 => check::<i16>(c),
        Ty::U32 => check::<u32>(c),
        Ty::I32 => check::<i32>(c),
        Ty::U64 => check::<u64>(c),
        Ty::I64 => check::<i64>(c),
        Ty::U128 => check::<u128>(c),
        Ty::I128 => check::<i128>(c),
        Ty::Usize => check::<usize>(c),
        Ty::Isize => check::<isize>(c),
        Ty::Char => check::<char>(c),
    }
}

fn facts(c: &Case) -> (bool, bool) {
    fn f<T: Num>(c: &Case) -> (bool, bool) {
        let (a, b) = (T::bound(c.a), T::bound(c.b));
        (T::touches_edge(a, b), a > b || (a == b && c.form == Form::Exclusive))
    }
    match c.ty {
        Ty::U8 => f::<u8>(c),
        Ty::I8 => f::<i8>(c),
        Ty::U16 => f::<u16>(c),
        Ty::I16 => f::<i16>(c),
        Ty::U32 => f::<u32>(c),
        Ty::I32 => f::<i32>(c),
        Ty::U64 => f::<u64>(c),
        Ty::I64 => f::<i64>(c),
        Ty::U128 => f::<u128>(c),
        Ty::I128 => f::<i128>(c),
        Ty::Usize => f::<usize>(c),
        Ty::Isize => f::<isize>(c),
        Ty::Char => f::<char>(c),
    }
}

fn eval(ctx: &mut Ctx, c: Case) {
    ctx.case("range", &c, |ctx| {
        let (edge, inverted) = facts(&c);
        let mask = if c.period >= 64 { u64::MAX } else { (1u64 << c.period) - 1 };
        let mixed = c.pattern & mask != 0 && c.pattern & mask != mask;
        if inverted {
            ctx.label("inverted_or_empty");
        }
        if edge {
            ctx.label("touches_min_max_or_gap");
        }
        if mixed {
            ctx.label("history_mixed_ends");
        }
        if (edge && mixed) || inverted {
            ctx.nontrivial(&format!("{:?}/{:?}", c.ty, c.form), &c, || json!(c));
        }
        routed(ctx, &c)
    });
}

/// run_case + attribution of the one listed known finding
fn routed(ctx: &mut Ctx, c: &Case) -> Result<(), String> {
    {
        match run_case(c) {
            Err(m) if m.starts_with("TAKE_EXTRA_PULL") && m.contains("!overflowed") => {
                // alternative model: the only disagreement is the debug overflow assertion raised by the
                // (n+1)-th pull that `take(n)` performs; everything else about the case was compared first
                if ctx.known_hit("take-pulls-one-extra-item", || json!({"case": c, "message": m})) {
                    Ok(())
                } else {
                    Err(m)
                }
            }
            Err(m) if m.starts_with("CHAR_WRAP") => {
                // alternative model (checked in run_case): everything up to char::MAX is std's, then konst wraps to '\0'
                if ctx.known_hit("char-range-from-wraps-past-max-without-debug-assertions", || json!({"case": c, "message": m})) {
                    Ok(())
                } else {
                    Err(m)
                }
            }
            r => r,
        }
    }
}

const PATTERNS: [(u64, u32); 5] = [(0, 1), (1, 1), (0b10, 2), (0b100, 3), (0b0110, 4)];

fn lo(off: i64) -> Bound {
    Bound { anchor: 0, off }
}
fn mid(off: i64) -> Bound {
    Bound { anchor: 1, off }
}
/// MAX - off
fn hi(off: i64) -> Bound {
    Bound { anchor: 2, off: -off }
}

fn explore(ctx: &mut Ctx) {
    let seed = ctx.args.seed;
    let mut rng = kvh::Rng::new(seed, "c09");
    // ---- u8 / i8: every (start,end) pair
    let npat = ctx.by_tier(3, 5);
    for ty in [Ty::U8, Ty::I8] {
        for a in 0..=255i64 {
            for b in 0..=255i64 {
                for form in [Form::Exclusive, Form::Inclusive] {
                    for &(pattern, period) in &PATTERNS[..npat] {
                        eval(ctx, Case { ty, form, a: lo(a), b: lo(b), pattern, period, cap: 300 });
                    }
                    // one seeded random history per pair
                    eval(ctx, Case { ty, form, a: lo(a), b: lo(b), pattern: rng.next(), period: 64, cap: 300 });
                }
            }
            eval(ctx, Case { ty, form: Form::From, a: lo(a), b: lo(0), pattern: 0, period: 1, cap: 300 });
            if ctx.too_many() {
                return;
            }
        }
    }
    ctx.exhaustive_part(&format!("all 65536 (start,end) pairs of u8 and of i8 x {{a..b,a..=b}} x {npat} fixed history patterns + 1 seeded random history; a.. for every start"));
    // ---- all histories for every small range (<= 10 elements) at the edges of every type
    let all_ty: Vec<Ty> = [Ty::U8, Ty::I8].into_iter().chain(WIDE).chain([Ty::Char]).collect();
    let klen = ctx.by_tier(6, 10);
    for &ty in &all_ty {
        for len in 0..=klen as i64 {
            // ranges of `len` elements anchored at MIN, at MAX and (chars) across the surrogate gap
            let mut anchors: Vec<(Bound, Bound, Form)> = vec![
                (lo(0), lo(len), Form::Exclusive),
                (hi(len), hi(0), Form::Exclusive),
            ];
            if len > 0 {
                anchors.push((lo(0), lo(len - 1), Form::Inclusive));
                anchors.push((hi(len - 1), hi(0), Form::Inclusive));
            }
            if ty == Ty::Char && len >= 2 {
                // ranges of `len` chars straddling the surrogate gap, every split position
                for before in 1..len {
                    anchors.push((mid(-before), mid(len - before - 1), Form::Inclusive));
                    anchors.push((mid(-before), mid(len - before), Form::Exclusive));
                }
            }
            for (a, b, form) in anchors {
                let steps = len as u32 + 2;
                for pattern in 0..(1u64 << steps) {
                    eval(ctx, Case { ty, form, a, b, pattern, period: steps, cap: steps });
                }
            }
        }
        if ctx.too_many() {
            return;
        }
    }
    ctx.exhaustive_part(&format!("every type (12 integer types + char): ranges of 0..={klen} elements anchored at MIN and at MAX (chars also across the surrogate gap) x both forms x all 2^(len+2) histories"));
    // ---- wider types: boundary neighbourhoods squared (ranges can be huge; steps capped)
    let mut nb: Vec<Bound> = Vec::new();
    for off in 0..=2 {
        nb.push(lo(off));
        nb.push(hi(off));
    }
    let cap = ctx.by_tier(24, 60);
    for &ty in &WIDE {
        // the neighbourhood of zero for signed types / of 2^(bits-1) for unsigned ones
        let mut bs = nb.clone();
        for d in -2..=2 {
            bs.push(mid(d));
        }
        for &a in &bs {
            for &b in &bs {
                for form in [Form::Exclusive, Form::Inclusive] {
                    for &(pattern, period) in &PATTERNS {
                        eval(ctx, Case { ty, form, a, b, pattern, period, cap });
                    }
                    eval(ctx, Case { ty, form, a, b, pattern: rng.next(), period: 64, cap });
                }
            }
            eval(ctx, Case { ty, form: Form::From, a, b: lo(0), pattern: 0, period: 1, cap });
        }
        if ctx.too_many() {
            return;
        }
    }
    // every power of two (and its negation): ranges of up to 6 elements straddling 2^k, for every type
    for &ty in &all_ty {
        for k in 1..128u8 {
            for anchor in [10 + k, 150u8.saturating_add(k).min(254)] {
                if anchor == 254 && k > 104 {
                    continue;
                }
                for (lo_off, hi_off) in [(-3i64, 3i64), (-1, 1), (-2, 0), (0, 2)] {
                    for form in [Form::Exclusive, Form::Inclusive] {
                        for &(pattern, period) in &PATTERNS {
                            eval(ctx, Case { ty, form, a: Bound { anchor, off: lo_off }, b: Bound { anchor, off: hi_off }, pattern, period, cap: 10 });
                        }
                    }
                }
            }
        }
        if ctx.too_many() {
            return;
        }
    }
    ctx.exhaustive_part("every type: short ranges straddling +-2^k for every k (modulo the bit width), both forms, 5 history patterns");
    // chars
    let cs: Vec<Bound> = vec![lo(0), lo(1), lo(0x7F), mid(-2), mid(-1), mid(0), mid(1), hi(1), hi(0)];
    for &a in &cs {
        for &b in &cs {
            for form in [Form::Exclusive, Form::Inclusive] {
                for &(pattern, period) in &PATTERNS {
                    eval(ctx, Case { ty: Ty::Char, form, a, b, pattern, period, cap });
                }
                eval(ctx, Case { ty: Ty::Char, form, a, b, pattern: rng.next(), period: 64, cap });
            }
        }
        eval(ctx, Case { ty: Ty::Char, form: Form::From, a, b: lo(0), pattern: 0, period: 1, cap });
    }
    ctx.exhaustive_part("10 wider integer types: pairs from {MIN..MIN+2, mid-2..mid+2, MAX-2..MAX}^2, char pairs from {0,1,0x7F,0xD7FE,0xD7FF,0xE000,0xE001,0x10FFFE,0x10FFFF}^2, x both forms x 5 patterns + 1 random history (steps capped)");
    // ---- random: any type, bounds near edges or anywhere, random history
    let n = ctx.by_tier(40_000, 1_000_000);
    let strat = (0usize..13, 0usize..3, 0u8..3, -40i64..40, 0u8..3, -40i64..40, any::<u64>(), 1u32..65);
    ctx.prop("range", n, strat, |ctx, v| {
        let c = fold_case(v);
        ctx.label("random");
        ctx.nontrivial("random", &c, || json!(c));
        routed(ctx, &c)
    });
}

pub fn fold_case(&(t, f, am, ao, bm, bo, pattern, period): &(usize, usize, u8, i64, u8, i64, u64, u32)) -> Case {
    let all: [Ty; 13] = [Ty::U8, Ty::I8, Ty::U16, Ty::I16, Ty::U32, Ty::I32, Ty::U64, Ty::I64, Ty::U128, Ty::I128, Ty::Usize, Ty::Isize, Ty::Char];
    Case {
        ty: all[t],
        form: [Form::Exclusive, Form::Inclusive, Form::From][f],
        a: Bound { anchor: am, off: ao },
        b: Bound { anchor: bm, off: bo },
        pattern,
        period,
        cap: 90,
    }
}

fn main() {
    kvh::on_thread(real_main);
}

fn real_main() {
    let args = kvh::parse_args("C09", "c09");
    let mut ctx = Ctx::new(args.clone(), RULE);
    if let Some(p) = &args.replay {
        let (_check, case) = kvh::load_replay(p);
        let c: Case = match serde_json::from_value::<Case>(case.clone()) {
            Ok(c) => c,
            Err(_) => fold_case(&serde_json::from_value(case).expect("replay case")),
        };
        println!("replaying {:?}", c);
        ctx.case("range", &c, |ctx| routed(ctx, &c));
    } else {
        explore(&mut ctx);
    }
    std::process::exit(ctx.finish());
}

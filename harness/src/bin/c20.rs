//! C20 (in-process half) — CStr constructors / conversions equal core::ffi::CStr's.
//! The concat/join macro half is decided by the generated-program engine (progs/gen_concat.py).
use core::ffi::CStr;
use konst::ffi::cstr as kc;
use kvh::{gen, Ctx};
use proptest::prelude::*;
use serde::{Deserialize, Serialize};
use serde_json::json;

const RULE: &str = "cases = byte strings; oracle = core::ffi::CStr::{from_bytes_until_nul, from_bytes_with_nul, to_bytes, to_bytes_with_nul, to_str}: success <=> success, equal CStr (same address), equal byte/str views, and to_str's Utf8Error equal to CStr::to_str's (the constructors' error kinds are not compared); non-trivial = byte string with an interior nul, a missing nul, or non-UTF-8 / multi-byte content before the nul; distinct by byte string";

#[derive(Serialize, Deserialize, Debug, Clone, Hash)]
struct Case {
    bytes: Vec<u8>,
}

macro_rules! ensure {
    ($c:expr, $($fmt:tt)*) => { if !$c { return Err(format!($($fmt)*)); } };
}

fn views(k: &CStr, what: &str) -> Result<(), String> {
    let (a, b) = (kc::to_bytes(k), k.to_bytes());
    ensure!(a == b && a.as_ptr() == b.as_ptr(), "{what}: to_bytes konst {a:?} std {b:?}");
    let (a, b) = (kc::to_bytes_with_nul(k), k.to_bytes_with_nul());
    ensure!(a == b && a.as_ptr() == b.as_ptr(), "{what}: to_bytes_with_nul konst {a:?} std {b:?}");
    let (a, b) = (kc::to_str(k), k.to_str());
    ensure!(a.is_ok() == b.is_ok(), "{what}: to_str konst ok={} std ok={}", a.is_ok(), b.is_ok());
    if let (Ok(a), Ok(b)) = (a, b) {
        ensure!(a == b && a.as_ptr() == b.as_ptr(), "{what}: to_str konst {a:?} std {b:?}");
    }
    // the error is std's own Utf8Error in a public newtype: it must be the one CStr::to_str reports
    if let (Err(a), Err(b)) = (a, b) {
        ensure!(a.0 == b, "{what}: to_str error konst {:?} std {:?}", a.0, b);
    }
    Ok(())
}

fn run_case(c: &Case) -> Result<(), String> {
    let b: &[u8] = &c.bytes;
    let (k, o) = (kc::from_bytes_until_nul(b), CStr::from_bytes_until_nul(b));
    ensure!(k.is_ok() == o.is_ok(), "from_bytes_until_nul({b:?}): konst ok={} std ok={}", k.is_ok(), o.is_ok());
    if let (Ok(k), Ok(o)) = (k, o) {
        ensure!(k == o && k.as_ptr() == o.as_ptr(), "from_bytes_until_nul({b:?}): konst {k:?} std {o:?}");
        views(k, "from_bytes_until_nul result")?;
    }
    let (k, o) = (kvh::catch(|| kc::from_bytes_with_nul(b)), CStr::from_bytes_with_nul(b));
    let k = k.map_err(|m| format!("from_bytes_with_nul({b:?}) panicked: {m}"))?;
    ensure!(k.is_ok() == o.is_ok(), "from_bytes_with_nul({b:?}): konst ok={} std ok={}", k.is_ok(), o.is_ok());
    if let (Ok(k), Ok(o)) = (k, o) {
        ensure!(k == o && k.as_ptr() == o.as_ptr(), "from_bytes_with_nul({b:?}): konst {k:?} std {o:?}");
        views(k, "from_bytes_with_nul result")?;
    }
    Ok(())
}

fn eval(ctx: &mut Ctx, bytes: &[u8]) {
    let c = Case { bytes: bytes.to_vec() };
    ctx.case("cstr", &c, |ctx| {
        let first = bytes.iter().position(|&x| x == 0);
        match first {
            None => ctx.label("no_nul"),
            Some(p) if p + 1 == bytes.len() => ctx.label("nul_only_at_end"),
            Some(_) => ctx.label("interior_nul"),
        }
        let head = &bytes[..first.unwrap_or(bytes.len())];
        if first.map_or(true, |p| p + 1 != bytes.len()) || !head.is_ascii() {
            ctx.nontrivial(if std::str::from_utf8(head).is_ok() { "utf8_head" } else { "non_utf8_head" }, &c, || json!(c));
        }
        run_case(&c)
    });
}

fn explore(ctx: &mut Ctx) {
    let l = ctx.by_tier(7, 9);
    gen::for_each_seq(&[0u8, b'a', 0xff], l, |s| eval(ctx, s));
    ctx.exhaustive_part(&format!("all byte strings of length <= {l} over {{0x00,'a',0xFF}}"));
    let l = ctx.by_tier(5, 6);
    gen::for_each_seq(&[0u8, b'a', 0xc3, 0xa9, 0x80], l, |s| eval(ctx, s));
    ctx.exhaustive_part(&format!("all byte strings of length <= {l} over {{0x00,'a',0xC3,0xA9,0x80}} (valid and invalid UTF-8 before the nul)"));
    let l = ctx.by_tier(5, 6);
    gen::for_each_seq(&[0u8, 0xe4, 0xbd, 0xf0, 0x9f], l, |s| eval(ctx, s));
    ctx.exhaustive_part(&format!("all byte strings of length <= {l} over {{0x00,0xE4,0xBD,0xF0,0x9F}} (complete and incomplete 3- / 4-byte sequences before the nul)"));
    // long byte strings (beyond the exhaustive bound): every length 0..=100 with no nul / exactly one nul at every
    // position / a second nul right after or at the end
    for len in 0..=100usize {
        eval(ctx, &vec![b'a'; len]);
        for p in 0..len {
            let mut v = vec![b'a'; len];
            v[p] = 0;
            eval(ctx, &v);
            if p + 1 < len {
                v[len - 1] = 0;
                eval(ctx, &v);
                v[p + 1] = 0;
                eval(ctx, &v);
            }
        }
    }
    ctx.exhaustive_part("lengths 0..=100: no nul, one nul at every position, plus a second nul at the end / right after");
    let n = ctx.by_tier(50_000, 1_000_000);
    let strat = proptest::collection::vec(prop_oneof![Just(0u8), Just(b'a'), any::<u8>()], 0..40);
    ctx.prop("cstr", n, strat, |ctx, v| {
        ctx.label("random");
        let c = Case { bytes: v.clone() };
        if v.contains(&0) {
            ctx.nontrivial("random", &c, || json!(c));
        }
        run_case(&c)
    });
}

fn main() {
    kvh::on_thread(real_main);
}

fn real_main() {
    let args = kvh::parse_args("C20", "c20");
    let mut ctx = Ctx::new(args.clone(), RULE);
    if let Some(p) = &args.replay {
        let (_check, case) = kvh::load_replay(p);
        let c: Case = match serde_json::from_value::<Case>(case.clone()) {
            Ok(c) => c,
            Err(_) => Case { bytes: serde_json::from_value(case).expect("replay case") },
        };
        println!("replaying {:?}", c);
        ctx.case("cstr", &c, |_| run_case(&c));
    } else {
        explore(&mut ctx);
    }
    std::process::exit(ctx.finish());
}

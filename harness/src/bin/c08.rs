//! C08 — slice iterators behave like std's double-ended slice iterators.
use konst::slice as ks;
use kvh::{catch, ostep, Ctx};
use proptest::prelude::*;
use serde::{Deserialize, Serialize};
use serde_json::json;

include!("../kiter.rs");
impl_kiter!(['a, T] ks::Iter<'a, T>, &'a T);
impl_kiter!(['a, T] ks::IterRev<'a, T>, &'a T);
impl_kiter!(['a, T: Copy] ks::IterCopied<'a, T>, T);
impl_kiter!(['a, T: Copy] ks::IterCopiedRev<'a, T>, T);
impl_kiter!(['a, T] ks::Windows<'a, T>, &'a [T]);
impl_kiter!(['a, T] ks::WindowsRev<'a, T>, &'a [T]);
impl_kiter!(['a, T] ks::Chunks<'a, T>, &'a [T]);
impl_kiter!(['a, T] ks::ChunksRev<'a, T>, &'a [T]);
impl_kiter!(['a, T] ks::RChunks<'a, T>, &'a [T]);
impl_kiter!(['a, T] ks::RChunksRev<'a, T>, &'a [T]);
impl_kiter!(['a, T] ks::ChunksExact<'a, T>, &'a [T]);
impl_kiter!(['a, T] ks::ChunksExactRev<'a, T>, &'a [T]);
impl_kiter!(['a, T] ks::RChunksExact<'a, T>, &'a [T]);
impl_kiter!(['a, T] ks::RChunksExactRev<'a, T>, &'a [T]);
impl_kiter!(['a, T, const N: usize] ks::ArrayChunks<'a, T, N>, &'a [T; N]);
impl_kiter!(['a, T, const N: usize] ks::ArrayChunksRev<'a, T, N>, &'a [T; N]);

const RULE: &str = "cases = (iterator kind, variant fwd/rev/rev.rev, element type u16|(), slice length, chunk/window size, history of front/back steps run 2 steps past exhaustion); oracle = core::slice::{Iter,Windows,Chunks,RChunks,ChunksExact,RChunksExact} (array_chunks vs chunks_exact + try_from) stepped with next/next_back (swapped for the reversed variant), items compared by address+length, as_slice()/remainder() after every step, a copy() stepped the other way before every step must not disturb the original; size 0 must panic at construction; non-trivial = history uses both ends and len % size != 0 (or, for iter/windows, len>=3); distinct by the whole tuple";

#[derive(Serialize, Deserialize, Debug, Clone, Copy, Hash, PartialEq, Eq)]
enum Kind {
    Iter,
    IterCopied,
    Windows,
    Chunks,
    RChunks,
    ChunksExact,
    RChunksExact,
    ArrayChunks,
}
const KINDS: [Kind; 8] = [Kind::Iter, Kind::IterCopied, Kind::Windows, Kind::Chunks, Kind::RChunks, Kind::ChunksExact, Kind::RChunksExact, Kind::ArrayChunks];

#[derive(Serialize, Deserialize, Debug, Clone, Copy, Hash, PartialEq, Eq)]
enum Variant {
    Fwd,
    Rev,
    RevRev,
}
const VARIANTS: [Variant; 3] = [Variant::Fwd, Variant::Rev, Variant::RevRev];

#[derive(Serialize, Deserialize, Debug, Clone, Hash)]
pub struct Case {
    kind: Kind,
    variant: Variant,
    unit: bool,
    len: usize,
    size: usize,
    hist: u64,
    steps: u32,
}

macro_rules! ensure {
    ($c:expr, $($fmt:tt)*) => { if !$c { return Err(format!($($fmt)*)); } };
}

fn same<T>(a: &[T], b: &[T]) -> bool {
    a.len() == b.len() && (a.is_empty() || a.as_ptr() == b.as_ptr())
}
fn span<T>(x: &[T], base: &[T]) -> String {
    if x.is_empty() {
        return "[]".into();
    }
    let off = (x.as_ptr() as usize).wrapping_sub(base.as_ptr() as usize) / std::mem::size_of::<T>().max(1);
    format!("[{}..{}]", off, off.wrapping_add(x.len()))
}
fn ospan<T>(x: Option<&[T]>, base: &[T]) -> String {
    x.map(|x| format!("Some({})", span(x, base))).unwrap_or("None".into())
}

/// Steps `k` against `o`; `flip`: konst is the reversed type, so its front is std's back.
fn drive<'a, T: 'a, K, O>(
    what: &str,
    base: &'a [T],
    mut k: K,
    mut o: O,
    flip: bool,
    hist: u64,
    steps: u32,
    as_sl: impl Fn(&K::Item) -> &'a [T],
    after: impl Fn(&K, &O) -> Result<(), String>,
) -> Result<(), String>
where
    K: KIter,
    O: DoubleEndedIterator<Item = &'a [T]>,
    K: CopyIt,
{
    after(&k, &o).map_err(|e| format!("{what} before any step: {e}"))?;
    for i in 0..steps {
        let back = (hist >> i) & 1 == 1;
        // a copy advanced in the opposite direction must not disturb `k`
        let mut c = k.copy_it();
        let _ = c.step(!back);
        let kv = k.step(back);
        let ov = ostep(&mut o, back ^ flip);
        let ks_ = kv.as_ref().map(|x| as_sl(x));
        let ok = match (ks_, ov) {
            (None, None) => true,
            (Some(a), Some(b)) => same(a, b),
            _ => false,
        };
        ensure!(ok, "{what} step {i} (konst {}): konst {} std {}", if back { "next_back" } else { "next" }, ospan(ks_, base), ospan(ov, base));
        after(&k, &o).map_err(|e| format!("{what} after step {i}: {e}"))?;
    }
    Ok(())
}

trait CopyIt {
    fn copy_it(&self) -> Self;
}
macro_rules! impl_copy_it {
    ($([$($gen:tt)*] $ty:ty),* $(,)?) => {$(
        impl<$($gen)*> CopyIt for $ty { fn copy_it(&self) -> Self { self.copy() } }
    )*};
}
impl_copy_it! {
    ['a, T] ks::Iter<'a, T>, ['a, T] ks::IterRev<'a, T>,
    ['a, T: Copy] ks::IterCopied<'a, T>, ['a, T: Copy] ks::IterCopiedRev<'a, T>,
    ['a, T] ks::Windows<'a, T>, ['a, T] ks::WindowsRev<'a, T>,
    ['a, T] ks::Chunks<'a, T>, ['a, T] ks::ChunksRev<'a, T>,
    ['a, T] ks::RChunks<'a, T>, ['a, T] ks::RChunksRev<'a, T>,
    ['a, T] ks::ChunksExact<'a, T>, ['a, T] ks::ChunksExactRev<'a, T>,
    ['a, T] ks::RChunksExact<'a, T>, ['a, T] ks::RChunksExactRev<'a, T>,
    ['a, T, const N: usize] ks::ArrayChunks<'a, T, N>, ['a, T, const N: usize] ks::ArrayChunksRev<'a, T, N>,
}

fn no_after<K, O>(_: &K, _: &O) -> Result<(), String> {
    Ok(())
}


fn array_chunks_case<'a, T: 'a, const N: usize>(s: &'a [T], c: &Case) -> Result<(), String> {
    let o = || s.chunks_exact(N);
    let rem = s.chunks_exact(N).remainder();
    let as_sl = |x: &&'a [T; N]| -> &'a [T] { &x[..] };
    match c.variant {
        Variant::Fwd => drive("array_chunks", s, ks::array_chunks::<T, N>(s), o(), false, c.hist, c.steps, as_sl, |k, _| {
            ensure!(same(k.remainder(), rem), "remainder(): konst {} std {}", span(k.remainder(), s), span(rem, s));
            Ok(())
        }),
        Variant::Rev => drive("array_chunks.rev()", s, ks::array_chunks::<T, N>(s).rev(), o(), true, c.hist, c.steps, as_sl, no_after),
        Variant::RevRev => drive("array_chunks.rev().rev()", s, ks::array_chunks::<T, N>(s).rev().rev(), o(), false, c.hist, c.steps, as_sl, |k, _| {
            ensure!(same(k.remainder(), rem), "remainder(): konst {} std {}", span(k.remainder(), s), span(rem, s));
            Ok(())
        }),
    }
}

fn id<'a, T>(x: &&'a [T]) -> &'a [T] {
    *x
}

fn check<T: Copy + PartialEq + std::fmt::Debug>(s: &[T], c: &Case) -> Result<(), String> {
    let n = c.size;
    let (h, st) = (c.hist, c.steps);
    macro_rules! three {
        ($name:literal, $k:expr, $o:expr, $as_sl:expr, $after_fwd:expr, $after_rev:expr) => {
            match c.variant {
                Variant::Fwd => drive($name, s, $k, $o, false, h, st, $as_sl, $after_fwd),
                Variant::Rev => drive(concat!($name, ".rev()"), s, $k.rev(), $o, true, h, st, $as_sl, $after_rev),
                Variant::RevRev => drive(concat!($name, ".rev().rev()"), s, $k.rev().rev(), $o, false, h, st, $as_sl, $after_fwd),
            }
        };
    }
    match c.kind {
        Kind::Iter => iter_as_slice(s, c),
        Kind::IterCopied => iter_copied(s, c),
        Kind::Windows => three!("windows", ks::windows(s, n), s.windows(n), id, no_after, no_after),
        Kind::Chunks => three!("chunks", ks::chunks(s, n), s.chunks(n), id, no_after, no_after),
        Kind::RChunks => three!("rchunks", ks::rchunks(s, n), s.rchunks(n), id, no_after, no_after),
        Kind::ChunksExact => {
            let rem = s.chunks_exact(n).remainder();
            three!(
                "chunks_exact",
                ks::chunks_exact(s, n),
                s.chunks_exact(n),
                id,
                |k: &ks::ChunksExact<'_, T>, _: &std::slice::ChunksExact<'_, T>| {
                    ensure!(same(k.remainder(), rem), "remainder(): konst {} std {}", span(k.remainder(), s), span(rem, s));
                    Ok(())
                },
                |k: &ks::ChunksExactRev<'_, T>, _: &std::slice::ChunksExact<'_, T>| {
                    ensure!(same(k.remainder(), rem), "rev remainder(): konst {} std {}", span(k.remainder(), s), span(rem, s));
                    Ok(())
                }
            )
        }
        Kind::RChunksExact => {
            let rem = s.rchunks_exact(n).remainder();
            three!(
                "rchunks_exact",
                ks::rchunks_exact(s, n),
                s.rchunks_exact(n),
                id,
                |k: &ks::RChunksExact<'_, T>, _: &std::slice::RChunksExact<'_, T>| {
                    ensure!(same(k.remainder(), rem), "remainder(): konst {} std {}", span(k.remainder(), s), span(rem, s));
                    Ok(())
                },
                |k: &ks::RChunksExactRev<'_, T>, _: &std::slice::RChunksExact<'_, T>| {
                    ensure!(same(k.remainder(), rem), "rev remainder(): konst {} std {}", span(k.remainder(), s), span(rem, s));
                    Ok(())
                }
            )
        }
        Kind::ArrayChunks => match n {
            1 => array_chunks_case::<T, 1>(s, c),
            2 => array_chunks_case::<T, 2>(s, c),
            3 => array_chunks_case::<T, 3>(s, c),
            4 => array_chunks_case::<T, 4>(s, c),
            5 => array_chunks_case::<T, 5>(s, c),
            _ => Ok(()),
        },
    }
}

/// iter / iter.rev(): as_slice() after every step vs std Iter::as_slice
fn iter_as_slice<T>(s: &[T], c: &Case) -> Result<(), String> {
    let mut o = s.iter();
    match c.variant {
        Variant::Fwd | Variant::RevRev => {
            let mut k = if c.variant == Variant::Fwd { ks::iter(s) } else { ks::iter(s).rev().rev() };
            for i in 0..c.steps {
                let back = (c.hist >> i) & 1 == 1;
                let mut cp = k.copy();
                let _ = cp.step(!back);
                let kv = k.step(back).map(|x| x as *const T);
                let ov = ostep(&mut o, back).map(|x| x as *const T);
                ensure!(kv == ov, "iter step {i}: element differs");
                ensure!(same(k.as_slice(), o.as_slice()), "iter.as_slice() after step {i}: konst {} std {}", span(k.as_slice(), s), span(o.as_slice(), s));
            }
        }
        Variant::Rev => {
            let mut k = ks::iter(s).rev();
            for i in 0..c.steps {
                let back = (c.hist >> i) & 1 == 1;
                let mut cp = k.copy();
                let _ = cp.step(!back);
                let kv = k.step(back).map(|x| x as *const T);
                let ov = ostep(&mut o, !back).map(|x| x as *const T);
                ensure!(kv == ov, "iter.rev() step {i}: element differs");
                ensure!(same(k.as_slice(), o.as_slice()), "iter.rev().as_slice() after step {i}: konst {} std {}", span(k.as_slice(), s), span(o.as_slice(), s));
            }
        }
    }
    Ok(())
}

fn iter_copied<T: Copy + PartialEq + std::fmt::Debug>(s: &[T], c: &Case) -> Result<(), String> {
    let mut o = s.iter();
    macro_rules! go {
        ($k:expr, $flip:expr, $name:literal) => {{
            let mut k = $k;
            for i in 0..c.steps {
                let back = (c.hist >> i) & 1 == 1;
                let mut cp = k.copy();
                let _ = cp.step(!back);
                let kv = k.step(back);
                let ov = ostep(&mut o, back ^ $flip).copied();
                ensure!(kv == ov, "{} step {i}: konst {:?} std {:?}", $name, kv, ov);
                ensure!(same(k.as_slice(), o.as_slice()), "{}.as_slice() after step {i}: konst {} std {}", $name, span(k.as_slice(), s), span(o.as_slice(), s));
            }
        }};
    }
    match c.variant {
        Variant::Fwd => go!(ks::iter_copied(s), false, "iter_copied"),
        Variant::Rev => go!(ks::iter_copied(s).rev(), true, "iter_copied.rev()"),
        Variant::RevRev => go!(ks::iter_copied(s).rev().rev(), false, "iter_copied.rev().rev()"),
    }
    Ok(())
}

fn zero_size_panics() -> Result<(), String> {
    let s: &[u16] = &[1, 2, 3];
    ensure!(catch(|| ks::windows(s, 0).copy().next().is_some()).is_err(), "windows(_, 0) must panic");
    ensure!(catch(|| ks::chunks(s, 0).copy().next().is_some()).is_err(), "chunks(_, 0) must panic");
    ensure!(catch(|| ks::rchunks(s, 0).copy().next().is_some()).is_err(), "rchunks(_, 0) must panic");
    ensure!(catch(|| ks::chunks_exact(s, 0).copy().next().is_some()).is_err(), "chunks_exact(_, 0) must panic");
    ensure!(catch(|| ks::rchunks_exact(s, 0).copy().next().is_some()).is_err(), "rchunks_exact(_, 0) must panic");
    ensure!(catch(|| ks::array_chunks::<u16, 0>(s).copy().next().is_some()).is_err(), "array_chunks::<0> must panic");
    Ok(())
}

pub fn run_case(c: &Case) -> Result<(), String> {
    if c.size == 0 {
        return zero_size_panics();
    }
    if c.unit {
        let v = vec![(); c.len];
        check::<()>(&v, c)
    } else {
        let v: Vec<u16> = (0..c.len).map(|i| (i as u16).wrapping_mul(7).wrapping_add(1)).collect();
        check::<u16>(&v, c)
    }
}

fn item_count(kind: Kind, len: usize, size: usize) -> usize {
    match kind {
        Kind::Iter | Kind::IterCopied => len,
        Kind::Windows => (len + 1).saturating_sub(size),
        Kind::Chunks | Kind::RChunks => (len + size - 1) / size,
        Kind::ChunksExact | Kind::RChunksExact | Kind::ArrayChunks => len / size,
    }
}

fn eval(ctx: &mut Ctx, c: Case) {
    ctx.case("slice_iter", &c, |ctx| {
        let mask = if c.steps >= 64 { u64::MAX } else { (1u64 << c.steps) - 1 };
        let h = c.hist & mask;
        let mixed = h != 0 && h != mask;
        let ragged = match c.kind {
            Kind::Iter | Kind::IterCopied | Kind::Windows => c.len >= 3,
            _ => c.size != 0 && c.len % c.size != 0,
        };
        if mixed {
            ctx.label("history_mixed_ends");
        }
        if ragged {
            ctx.label("len%size!=0_or_len>=3");
        }
        if c.unit {
            ctx.label("zst_elements");
        }
        if mixed && ragged {
            ctx.nontrivial(&format!("{:?}/{:?}", c.kind, c.variant), &c, || json!(c));
        }
        run_case(&c)
    });
}

fn explore(ctx: &mut Ctx) {
    eval(ctx, Case { kind: Kind::Windows, variant: Variant::Fwd, unit: false, len: 3, size: 0, hist: 0, steps: 0 });
    let max_len = ctx.by_tier(11, 14);
    for len in 0..=max_len {
        for size in 1..=max_len + 1 {
            for kind in KINDS {
                if matches!(kind, Kind::Iter | Kind::IterCopied) && size != 1 {
                    continue;
                }
                if kind == Kind::ArrayChunks && size > 5 {
                    continue;
                }
                let items = item_count(kind, len, size) as u32;
                let steps = items + 2;
                for variant in VARIANTS {
                    for unit in [false, true] {
                        for hist in 0..(1u64 << steps) {
                            eval(ctx, Case { kind, variant, unit, len, size, hist, steps });
                        }
                    }
                }
                if ctx.too_many() {
                    return;
                }
            }
        }
    }
    // medium lengths around powers of two x sizes around powers of two: structured histories
    for len in [15usize, 16, 17, 31, 32, 33, 63, 64, 65, 100] {
        for size in [1usize, 2, 3, 4, 5, 7, 8, 9, 15, 16, 17, 31, 32, 33, 64, 65, 99, 100, 101] {
            for kind in KINDS {
                if matches!(kind, Kind::Iter | Kind::IterCopied) && size != 1 {
                    continue;
                }
                if kind == Kind::ArrayChunks && size > 5 {
                    continue;
                }
                let steps = (item_count(kind, len, size) as u32 + 2).min(64);
                for variant in VARIANTS {
                    for hist in [0u64, u64::MAX, 0xAAAA_AAAA_AAAA_AAAA, 0x5555_5555_5555_5555, 0x2492_4924_9249_2492, 0xFFFF_FFFF_0000_0000, 1, 2, 1 << (steps.saturating_sub(3))] {
                        eval(ctx, Case { kind, variant, unit: false, len, size, hist, steps });
                    }
                }
            }
        }
    }
    ctx.exhaustive_part("lengths {15,16,17,31,32,33,63,64,65,100} x 19 sizes around powers of two x 8 kinds x 3 variants x 9 structured histories run to exhaustion");
    // long slices of sized elements (lengths beyond 2^15 / 2^16) x sizes around 2^8, 2^14, 2^15, 2^16 and the length
    for len in [40_000usize, 70_000] {
        for size in [1usize, 255, 256, 257, 8191, 8192, 16383, 16384, 16385, 32767, 32768, 32769, 39_999, 40_000, 40_001, 65535, 65536, 65537, 69_999, 70_000, 70_001] {
            for kind in KINDS {
                if matches!(kind, Kind::Iter | Kind::IterCopied) && size != 1 {
                    continue;
                }
                if kind == Kind::ArrayChunks && size > 5 {
                    continue;
                }
                let steps = (item_count(kind, len, size) as u32 + 2).min(12);
                for variant in VARIANTS {
                    for hist in [0u64, u64::MAX, 0xAAAA_AAAA_AAAA_AAAA, 0x5555_5555_5555_5555, 0b0110] {
                        eval(ctx, Case { kind, variant, unit: false, len, size, hist, steps });
                    }
                }
            }
        }
    }
    ctx.exhaustive_part("lengths {40000, 70000} (u16 elements) x 21 sizes around 2^8, 2^13..2^16 and the length x 8 kinds x 3 variants x 5 histories of up to 12 steps");
    // chunk / window sizes congruent to a small size modulo 2^8 / 2^16 / 2^32 on short slices
    for len in [0usize, 1, 2, 5, 8] {
        for k in [8u32, 16, 32] {
            for small in [1usize, 2, 3] {
                let size = (1usize << k) + small;
                for kind in [Kind::Windows, Kind::Chunks, Kind::RChunks, Kind::ChunksExact, Kind::RChunksExact] {
                    for variant in VARIANTS {
                        for unit in [false, true] {
                            for hist in 0..8u64 {
                                eval(ctx, Case { kind, variant, unit, len, size, hist, steps: 3 });
                            }
                        }
                    }
                }
            }
        }
    }
    ctx.exhaustive_part("sizes 2^8+s, 2^16+s, 2^32+s (s in 1..=3) on lengths {0,1,2,5,8}: all histories of 3 steps");
    // huge chunk / window sizes (valid for std: any non-zero size) and huge zero-sized slices
    let big = [usize::MAX, usize::MAX - 1, usize::MAX / 2 + 1, isize::MAX as usize];
    for len in 0..=8usize {
        let sizes: Vec<usize> = big.iter().copied().chain([usize::MAX - len, (usize::MAX - len).wrapping_add(1), usize::MAX - 2 * len]).collect();
        for &size in &sizes {
            if size == 0 {
                continue;
            }
            for kind in [Kind::Windows, Kind::Chunks, Kind::RChunks, Kind::ChunksExact, Kind::RChunksExact] {
                for variant in VARIANTS {
                    for unit in [false, true] {
                        for hist in 0..8u64 {
                            eval(ctx, Case { kind, variant, unit, len, size, hist, steps: 3 });
                        }
                    }
                }
            }
        }
    }
    for len in [usize::MAX, usize::MAX - 1, usize::MAX - 5, isize::MAX as usize + 3] {
        for size in [1usize, 2, 7, 1 << 40, isize::MAX as usize, usize::MAX - 1, usize::MAX] {
            for kind in KINDS {
                if matches!(kind, Kind::Iter | Kind::IterCopied) && size != 1 {
                    continue;
                }
                if kind == Kind::ArrayChunks && size > 5 {
                    continue;
                }
                for variant in VARIANTS {
                    for hist in 0..16u64 {
                        eval(ctx, Case { kind, variant, unit: true, len, size, hist, steps: 4 });
                    }
                }
            }
        }
    }
    ctx.exhaustive_part("huge sizes {usize::MAX, MAX-1, MAX/2+1, isize::MAX, MAX-len, MAX-len+1, MAX-2len} on lengths 0..=8, and zero-sized slices of length {usize::MAX, MAX-1, MAX-5, isize::MAX+3} x sizes {1,2,7,2^40,isize::MAX,MAX-1,MAX}: all histories of 3-4 steps");
    ctx.exhaustive_part(&format!("lengths 0..={max_len} x sizes 1..={} x 8 iterator kinds x {{fwd,rev,rev.rev}} x {{u16,()}} x all 2^(items+2) histories; size 0 panics", max_len + 1));
    let n = ctx.by_tier(200_000, 3_000_000);
    let strat = (0usize..8, 0usize..3, any::<bool>(), 0usize..41, 1usize..12, any::<u64>());
    ctx.prop("slice_iter", n, strat, |ctx, v| {
        let c = fold_case(v);
        ctx.label("random");
        if c.len % c.size != 0 {
            ctx.nontrivial("random", &c, || json!(c));
        }
        run_case(&c)
    });
}

pub fn fold_case(&(k, v, unit, len, size, hist): &(usize, usize, bool, usize, usize, u64)) -> Case {
    let kind = KINDS[k];
    let size = if kind == Kind::ArrayChunks { (size - 1) % 5 + 1 } else { size };
    let steps = (item_count(kind, len, if matches!(kind, Kind::Iter | Kind::IterCopied) { 1 } else { size }) as u32 + 2).min(64);
    Case { kind, variant: VARIANTS[v], unit, len, size, hist, steps }
}

fn main() {
    kvh::on_thread(real_main);
}

fn real_main() {
    let args = kvh::parse_args("C08", "c08");
    let mut ctx = Ctx::new(args.clone(), RULE);
    if let Some(p) = &args.replay {
        let (_check, case) = kvh::load_replay(p);
        let c: Case = match serde_json::from_value::<Case>(case.clone()) {
            Ok(c) => c,
            Err(_) => fold_case(&serde_json::from_value(case).expect("replay case")),
        };
        println!("replaying {:?}", c);
        ctx.case("slice_iter", &c, |_| run_case(&c));
    } else {
        explore(&mut ctx);
    }
    std::process::exit(ctx.finish());
}

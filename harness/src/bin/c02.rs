//! C02 — slice indexing / splitting functions agree with std slice indexing.
use konst::slice as ks;
use kvh::{gen, Ctx};
use proptest::prelude::*;
use serde::{Deserialize, Serialize};
use serde_json::json;

const RULE: &str = "cases = (element type, slice length, index a, index b, function group); oracle = slice::get / get(range) / split_at / <&[T;N]>::try_from / as_chunks on the same slice, results compared by address+length, _mut variants additionally written through; non-trivial = index >= len-1 or beyond len, or start>end, or a zero-sized / Drop element type, or a zero-sized-element slice longer than isize::MAX (result lengths compared); distinct by (type,len,a,b,group)";

#[derive(Serialize, Deserialize, Debug, Clone, Copy, Hash, PartialEq, Eq)]
enum Elem {
    U8,
    U64,
    Unit,
    Str,
    Arr3,
    Aligned32,
    Big72,
}
const ELEMS: [Elem; 7] = [Elem::U8, Elem::U64, Elem::Unit, Elem::Str, Elem::Arr3, Elem::Aligned32, Elem::Big72];

#[derive(Serialize, Deserialize, Debug, Clone, Copy, Hash, PartialEq, Eq)]
enum Group {
    /// functions of the slice alone: first/last/split_first/split_last_mut, try_into_array, as_chunks
    Len,
    /// single-index functions: get, get_mut, *_from*, *_up_to*, split_at*
    Idx,
    /// (start,end) functions
    Range,
    /// every function above on a slice of zero-sized elements that is longer than isize::MAX (lengths only)
    HugeZst,
}

#[derive(Serialize, Deserialize, Debug, Clone, Hash)]
pub struct Case {
    elem: Elem,
    group: Group,
    len: usize,
    a: usize,
    b: usize,
}

trait El: Clone + PartialEq + std::fmt::Debug {
    const ZST: bool = false;
    fn make(i: usize) -> Self;
    fn sentinel() -> Self;
    /// try_into_array(_mut) with array lengths congruent to the slice length modulo 2^8 / 2^16 / 2^32 (only the
    /// conversion: no element is touched).  Implemented for the element types small enough for `[T; 2^56 + 1]` to be
    /// a valid type (at most 2^61 bytes).
    fn congruent_arrays(_s: &[Self], _m: &mut Vec<Self>) -> Result<(), String> {
        Ok(())
    }
}
fn congr<T: El, const N: usize>(s: &[T], m: &mut Vec<T>) -> Result<(), String> {
    let len = s.len();
    let k = ks::try_into_array::<T, N>(s);
    if k.is_ok() != (len == N) {
        return Err(format!("try_into_array::<{N}> len {len}: konst ok={}", k.is_ok()));
    }
    let k = ks::try_into_array_mut::<T, N>(m);
    if k.is_ok() != (len == N) {
        return Err(format!("try_into_array_mut::<{N}> len {len}: konst ok={}", k.is_ok()));
    }
    Ok(())
}
macro_rules! congruent_impl {
    () => {
        fn congruent_arrays(s: &[Self], m: &mut Vec<Self>) -> Result<(), String> {
            congr::<Self, 256>(s, m)?;
            congr::<Self, 257>(s, m)?;
            congr::<Self, 258>(s, m)?;
            congr::<Self, 259>(s, m)?;
            congr::<Self, 65536>(s, m)?;
            congr::<Self, 65537>(s, m)?;
            congr::<Self, 65538>(s, m)?;
            congr::<Self, 65539>(s, m)?;
            congr::<Self, { 1 << 32 }>(s, m)?;
            congr::<Self, { (1 << 32) + 1 }>(s, m)?;
            congr::<Self, { (1 << 32) + 2 }>(s, m)?;
            congr::<Self, { (1 << 32) + 3 }>(s, m)?;
            congr::<Self, { (1 << 40) + 3 }>(s, m)?;
            congr::<Self, { (1 << 56) + 1 }>(s, m)
        }
    };
}
impl El for u8 {
    congruent_impl!();
    fn make(i: usize) -> u8 {
        (i % 251) as u8
    }
    fn sentinel() -> u8 {
        255
    }
}
impl El for u64 {
    congruent_impl!();
    fn make(i: usize) -> u64 {
        i as u64 * 0x0101_0101_0101 + 7
    }
    fn sentinel() -> u64 {
        u64::MAX
    }
}
impl El for () {
    congruent_impl!();
    const ZST: bool = true;
    fn make(_: usize) {}
    fn sentinel() {}
}
impl El for String {
    fn make(i: usize) -> String {
        format!("s{i}")
    }
    fn sentinel() -> String {
        "SENTINEL".to_string()
    }
}
/// over-aligned element (size 32, alignment 32) and a large one (72 bytes, alignment 8)
#[derive(Clone, PartialEq, Debug)]
#[repr(align(32))]
pub struct A32(u8);
impl El for A32 {
    fn make(i: usize) -> A32 {
        A32((i % 251) as u8)
    }
    fn sentinel() -> A32 {
        A32(255)
    }
}
impl El for [u64; 9] {
    fn make(i: usize) -> [u64; 9] {
        [i as u64; 9]
    }
    fn sentinel() -> [u64; 9] {
        [u64::MAX; 9]
    }
}
impl El for [u8; 3] {
    congruent_impl!();
    fn make(i: usize) -> [u8; 3] {
        [i as u8, (i >> 8) as u8, 1]
    }
    fn sentinel() -> [u8; 3] {
        [255, 255, 255]
    }
}

fn same<T>(a: &[T], b: &[T]) -> bool {
    a.len() == b.len() && (a.is_empty() || a.as_ptr() == b.as_ptr())
}
fn same_opt<T>(a: Option<&[T]>, b: Option<&[T]>) -> bool {
    match (a, b) {
        (None, None) => true,
        (Some(a), Some(b)) => same(a, b),
        _ => false,
    }
}
fn d<T>(s: &[T], base: &[T]) -> String {
    if s.is_empty() {
        return "[empty]".into();
    }
    let off = (s.as_ptr() as usize).wrapping_sub(base.as_ptr() as usize)
        / std::mem::size_of::<T>().max(1);
    format!("[{}..{}]", off, off.wrapping_add(s.len()))
}
fn dopt<T>(s: Option<&[T]>, base: &[T]) -> String {
    match s {
        None => "None".into(),
        Some(s) => format!("Some({})", d(s, base)),
    }
}

macro_rules! ensure {
    ($c:expr, $($fmt:tt)*) => { if !$c { return Err(format!($($fmt)*)); } };
}

/// (offset,len) of a sub-slice in element units relative to base, for the _mut comparisons
fn span<T>(s: &[T], base_ptr: *const T) -> (usize, usize) {
    let sz = std::mem::size_of::<T>().max(1);
    (
        (s.as_ptr() as usize).wrapping_sub(base_ptr as usize) / sz,
        s.len(),
    )
}

/// writes the sentinel through `m`, returns which positions were written
fn write_through<T: El>(m: &mut [T]) {
    for x in m.iter_mut() {
        *x = T::sentinel();
    }
}
/// checks that exactly positions `lo..hi` of `v` hold the sentinel and the others their original value
fn exactly_written<T: El>(v: &[T], lo: usize, hi: usize, what: &str) -> Result<(), String> {
    if T::ZST {
        return Ok(());
    }
    for (i, x) in v.iter().enumerate() {
        let want = if i >= lo && i < hi {
            T::sentinel()
        } else {
            T::make(i)
        };
        ensure!(
            *x == want,
            "{what}: after writing through the returned &mut, element {i} is {:?}, expected {:?} (expected written range {lo}..{hi})",
            x,
            want
        );
    }
    Ok(())
}

fn fresh<T: El>(len: usize) -> Vec<T> {
    (0..len).map(T::make).collect()
}

fn check_idx<T: El>(len: usize, a: usize) -> Result<(), String> {
    let v: Vec<T> = fresh(len);
    let s: &[T] = &v;
    // get
    let k = ks::get(s, a);
    let o = s.get(a);
    ensure!(
        k.map(|r| r as *const T) == o.map(|r| r as *const T),
        "get({a}) on len {len}: konst {:?} std {:?}",
        k.is_some(),
        o.is_some()
    );
    // from
    let o = s.get(a..);
    let k = ks::get_from(s, a);
    ensure!(same_opt(k, o), "get_from({a}) len {len}: konst {} std {}", dopt(k, s), dopt(o, s));
    let k = ks::slice_from(s, a);
    let want: &[T] = o.unwrap_or(&[]);
    ensure!(same(k, want), "slice_from({a}) len {len}: konst {} expected {}", d(k, s), d(want, s));
    // up_to
    let o = s.get(..a);
    let k = ks::get_up_to(s, a);
    ensure!(same_opt(k, o), "get_up_to({a}) len {len}: konst {} std {}", dopt(k, s), dopt(o, s));
    let k = ks::slice_up_to(s, a);
    let want: &[T] = o.unwrap_or(s);
    ensure!(same(k, want), "slice_up_to({a}) len {len}: konst {} expected {}", d(k, s), d(want, s));
    // split_at
    let at = a.min(len);
    let (l, r) = ks::split_at(s, a);
    ensure!(
        same(l, &s[..at]) && same(r, &s[at..]),
        "split_at({a}) len {len}: konst ({}, {}) expected ([0..{at}], [{at}..{len}])",
        d(l, s),
        d(r, s)
    );

    // ---- _mut variants: same elements (address + length), then written through
    let mut m: Vec<T> = fresh(len);
    let base = m.as_ptr();
    {
        let k = ks::get_mut(&mut m, a).map(|r| r as *mut T as usize);
        let want = if a < len {
            Some(base as usize + a * std::mem::size_of::<T>())
        } else {
            None
        };
        ensure!(k == want, "get_mut({a}) len {len}: wrong element / presence");
        if let Some(r) = ks::get_mut(&mut m, a) {
            *r = T::sentinel();
        }
        exactly_written(&m, a.min(len), if a < len { a + 1 } else { a.min(len) }, "get_mut")?;
    }
    let mut m: Vec<T> = fresh(len);
    let base = m.as_ptr();
    {
        let k = ks::get_from_mut(&mut m, a);
        ensure!(k.is_some() == (a <= len), "get_from_mut({a}) len {len}: presence {}", k.is_some());
        if let Some(k) = k {
            let sp = span(k, base);
            ensure!(k.len() == len - a && (k.is_empty() || T::ZST || sp.0 == a), "get_from_mut({a}) len {len}: got {:?}", sp);
            write_through(k);
            exactly_written(&m, a, len, "get_from_mut")?;
        }
    }
    let mut m: Vec<T> = fresh(len);
    let base = m.as_ptr();
    {
        let k = ks::slice_from_mut(&mut m, a);
        let sp = span(k, base);
        ensure!(k.len() == len - at && (k.is_empty() || T::ZST || sp.0 == at), "slice_from_mut({a}) len {len}: got {:?}", sp);
        write_through(k);
        exactly_written(&m, at, len, "slice_from_mut")?;
    }
    let mut m: Vec<T> = fresh(len);
    let base = m.as_ptr();
    {
        let k = ks::get_up_to_mut(&mut m, a);
        ensure!(k.is_some() == (a <= len), "get_up_to_mut({a}) len {len}: presence {}", k.is_some());
        if let Some(k) = k {
            let sp = span(k, base);
            ensure!(k.len() == a && (k.is_empty() || T::ZST || sp.0 == 0), "get_up_to_mut({a}) len {len}: got {:?}", sp);
            write_through(k);
            exactly_written(&m, 0, a, "get_up_to_mut")?;
        }
    }
    let mut m: Vec<T> = fresh(len);
    let base = m.as_ptr();
    {
        let k = ks::slice_up_to_mut(&mut m, a);
        let sp = span(k, base);
        ensure!(k.len() == at && (k.is_empty() || T::ZST || sp.0 == 0), "slice_up_to_mut({a}) len {len}: got {:?}", sp);
        write_through(k);
        exactly_written(&m, 0, at, "slice_up_to_mut")?;
    }
    let mut m: Vec<T> = fresh(len);
    let base = m.as_ptr();
    {
        let (l, r) = ks::split_at_mut(&mut m, a);
        let (sl, sr) = (span(l, base), span(r, base));
        ensure!(
            l.len() == at && r.len() == len - at && (l.is_empty() || T::ZST || sl.0 == 0) && (r.is_empty() || T::ZST || sr.0 == at),
            "split_at_mut({a}) len {len}: got {:?} {:?}",
            sl,
            sr
        );
        write_through(r);
        exactly_written(&m, at, len, "split_at_mut.1")?;
    }
    Ok(())
}

fn check_range<T: El>(len: usize, a: usize, b: usize) -> Result<(), String> {
    let v: Vec<T> = fresh(len);
    let s: &[T] = &v;
    let o = s.get(a..b);
    let k = ks::get_range(s, a, b);
    ensure!(same_opt(k, o), "get_range({a},{b}) len {len}: konst {} std {}", dopt(k, s), dopt(o, s));
    let (a2, b2) = (a.min(len), b.min(len));
    let want: &[T] = if a2 <= b2 { &s[a2..b2] } else { &[] };
    let k = ks::slice_range(s, a, b);
    ensure!(same(k, want), "slice_range({a},{b}) len {len}: konst {} expected {}", d(k, s), d(want, s));

    let mut m: Vec<T> = fresh(len);
    let base = m.as_ptr();
    {
        let k = ks::get_range_mut(&mut m, a, b);
        ensure!(k.is_some() == o.is_some(), "get_range_mut({a},{b}) len {len}: presence {}", k.is_some());
        if let Some(k) = k {
            let sp = span(k, base);
            ensure!(k.len() == b - a && (k.is_empty() || T::ZST || sp.0 == a), "get_range_mut({a},{b}) len {len}: got {:?}", sp);
            write_through(k);
            exactly_written(&m, a, b, "get_range_mut")?;
        }
    }
    let mut m: Vec<T> = fresh(len);
    let base = m.as_ptr();
    {
        let k = ks::slice_range_mut(&mut m, a, b);
        let sp = span(k, base);
        let (lo, hi) = if a2 <= b2 { (a2, b2) } else { (0, 0) };
        ensure!(k.len() == hi - lo && (k.is_empty() || T::ZST || sp.0 == lo), "slice_range_mut({a},{b}) len {len}: got {:?} expected {lo}..{hi}", sp);
        write_through(k);
        exactly_written(&m, lo, hi, "slice_range_mut")?;
    }
    Ok(())
}

fn arr_checks<T: El, const N: usize>(s: &[T], m: &mut Vec<T>) -> Result<(), String> {
    let len = s.len();
    // try_into_array
    let k = ks::try_into_array::<T, N>(s);
    let o = <&[T; N]>::try_from(s);
    ensure!(k.is_ok() == o.is_ok(), "try_into_array::<{N}> len {len}: konst ok={} std ok={}", k.is_ok(), o.is_ok());
    if let (Ok(k), Ok(o)) = (k, o) {
        ensure!(
            (N == 0 || k.as_ptr() == o.as_ptr()) && k[..] == o[..],
            "try_into_array::<{N}>: different elements"
        );
    }
    let base = m.as_ptr();
    let k = ks::try_into_array_mut::<T, N>(m);
    ensure!(k.is_ok() == (len == N), "try_into_array_mut::<{N}> len {len}: ok={}", k.is_ok());
    if let Ok(k) = k {
        ensure!(N == 0 || k.as_ptr() == base, "try_into_array_mut::<{N}>: wrong address");
        for x in k.iter_mut() {
            *x = T::sentinel();
        }
        exactly_written(m, 0, N, "try_into_array_mut")?;
        for (i, x) in m.iter_mut().enumerate() {
            *x = T::make(i);
        }
    }
    // as_chunks / as_rchunks
    if N == 0 {
        ensure!(kvh::catch(|| ks::as_chunks::<T, N>(s).1.len()).is_err(), "as_chunks::<0> must panic");
        ensure!(kvh::catch(|| ks::as_rchunks::<T, N>(s).0.len()).is_err(), "as_rchunks::<0> must panic");
    } else {
        let (kc, kr) = ks::as_chunks::<T, N>(s);
        let (oc, or) = s.as_chunks::<N>();
        ensure!(
            kc.len() == oc.len() && same(kr, or) && (kc.is_empty() || kc.as_ptr() == oc.as_ptr()) && kc == oc,
            "as_chunks::<{N}> len {len}: konst ({} chunks, rem {}) std ({} chunks, rem {})",
            kc.len(),
            d(kr, s),
            oc.len(),
            d(or, s)
        );
        let (kr, kc) = ks::as_rchunks::<T, N>(s);
        let (or, oc) = s.as_rchunks::<N>();
        ensure!(
            kc.len() == oc.len() && same(kr, or) && (kc.is_empty() || kc.as_ptr() == oc.as_ptr()) && kc == oc,
            "as_rchunks::<{N}> len {len}: konst (rem {}, {} chunks) std (rem {}, {} chunks)",
            d(kr, s),
            kc.len(),
            d(or, s),
            oc.len()
        );
    }
    Ok(())
}

fn check_len<T: El>(len: usize) -> Result<(), String> {
    let v: Vec<T> = fresh(len);
    let s: &[T] = &v;
    let mut m: Vec<T> = fresh(len);
    arr_checks::<T, 0>(s, &mut m)?;
    arr_checks::<T, 1>(s, &mut m)?;
    arr_checks::<T, 2>(s, &mut m)?;
    arr_checks::<T, 3>(s, &mut m)?;
    arr_checks::<T, 4>(s, &mut m)?;
    arr_checks::<T, 5>(s, &mut m)?;
    // even sizes that are not powers of two (a mask instead of a modulo is only right for powers of two)
    arr_checks::<T, 6>(s, &mut m)?;
    arr_checks::<T, 10>(s, &mut m)?;
    arr_checks::<T, 12>(s, &mut m)?;
    arr_checks::<T, 14>(s, &mut m)?;
    arr_checks::<T, 20>(s, &mut m)?;
    arr_checks::<T, 24>(s, &mut m)?;
    arr_checks::<T, 48>(s, &mut m)?;
    arr_checks::<T, 7>(s, &mut m)?;
    arr_checks::<T, 8>(s, &mut m)?;
    arr_checks::<T, 9>(s, &mut m)?;
    arr_checks::<T, 15>(s, &mut m)?;
    arr_checks::<T, 16>(s, &mut m)?;
    arr_checks::<T, 17>(s, &mut m)?;
    arr_checks::<T, 31>(s, &mut m)?;
    arr_checks::<T, 32>(s, &mut m)?;
    arr_checks::<T, 33>(s, &mut m)?;
    arr_checks::<T, 64>(s, &mut m)?;
    T::congruent_arrays(s, &mut m)?;
    // first_mut / last_mut / split_first_mut / split_last_mut
    let base = m.as_ptr() as usize;
    let sz = std::mem::size_of::<T>();
    let k = ks::first_mut(&mut m).map(|r| r as *mut T as usize);
    ensure!(k == if len > 0 { Some(base) } else { None }, "first_mut len {len}");
    let k = ks::last_mut(&mut m).map(|r| r as *mut T as usize);
    ensure!(k == if len > 0 { Some(base + (len - 1) * sz) } else { None }, "last_mut len {len}");
    {
        let k = ks::split_first_mut(&mut m);
        ensure!(k.is_some() == (len > 0), "split_first_mut len {len} presence");
        if let Some((f, rest)) = k {
            ensure!(f as *mut T as usize == base && rest.len() == len - 1, "split_first_mut len {len}: wrong parts");
            ensure!(rest.is_empty() || rest.as_ptr() as usize == base + sz, "split_first_mut len {len}: rest address");
            write_through(rest);
            exactly_written(&m, 1, len, "split_first_mut")?;
        }
    }
    let mut m: Vec<T> = fresh(len);
    let base = m.as_ptr() as usize;
    {
        let k = ks::split_last_mut(&mut m);
        ensure!(k.is_some() == (len > 0), "split_last_mut len {len} presence");
        if let Some((l, rest)) = k {
            ensure!(l as *mut T as usize == base + (len - 1) * sz && rest.len() == len - 1, "split_last_mut len {len}: wrong parts");
            ensure!(rest.is_empty() || rest.as_ptr() as usize == base, "split_last_mut len {len}: rest address");
            write_through(rest);
            exactly_written(&m, 0, len - 1, "split_last_mut")?;
        }
    }
    Ok(())
}

/// slices of zero-sized elements may be longer than isize::MAX elements; only lengths can be compared
/// (all addresses coincide), and nothing is written element by element
fn check_huge_zst(len: usize, a: usize, b: usize) -> Result<(), String> {
    static BIG: [(); usize::MAX] = [(); usize::MAX];
    let s: &[()] = &BIG[..len];
    let l = |o: Option<&[()]>| o.map(|x| x.len());
    ensure!(ks::get(s, a).is_some() == s.get(a).is_some(), "get({a}) on {len} x (): konst {:?}", ks::get(s, a).is_some());
    ensure!(l(ks::get_from(s, a)) == l(s.get(a..)), "get_from({a}) on {len} x (): konst {:?} std {:?}", l(ks::get_from(s, a)), l(s.get(a..)));
    ensure!(ks::slice_from(s, a).len() == l(s.get(a..)).unwrap_or(0), "slice_from({a}) on {len} x (): konst len {} expected {}", ks::slice_from(s, a).len(), l(s.get(a..)).unwrap_or(0));
    ensure!(l(ks::get_up_to(s, a)) == l(s.get(..a)), "get_up_to({a}) on {len} x (): konst {:?} std {:?}", l(ks::get_up_to(s, a)), l(s.get(..a)));
    ensure!(ks::slice_up_to(s, a).len() == a.min(len), "slice_up_to({a}) on {len} x (): konst len {}", ks::slice_up_to(s, a).len());
    let at = a.min(len);
    let (x, y) = ks::split_at(s, a);
    ensure!(x.len() == at && y.len() == len - at, "split_at({a}) on {len} x (): konst ({}, {}) expected ({at}, {})", x.len(), y.len(), len - at);
    ensure!(l(ks::get_range(s, a, b)) == l(s.get(a..b)), "get_range({a},{b}) on {len} x (): konst {:?} std {:?}", l(ks::get_range(s, a, b)), l(s.get(a..b)));
    let (a2, b2) = (a.min(len), b.min(len));
    let want = if a2 <= b2 { b2 - a2 } else { 0 };
    ensure!(ks::slice_range(s, a, b).len() == want, "slice_range({a},{b}) on {len} x (): konst len {} expected {want}", ks::slice_range(s, a, b).len());
    // _mut variants on an owned array of the same kind
    let mut big = [(); usize::MAX];
    let m: &mut [()] = &mut big[..len];
    ensure!(ks::get_mut(m, a).is_some() == (a < len), "get_mut({a}) on {len} x ()");
    ensure!(ks::get_from_mut(m, a).map(|x| x.len()) == if a <= len { Some(len - a) } else { None }, "get_from_mut({a}) on {len} x (): konst {:?}", ks::get_from_mut(m, a).map(|x| x.len()));
    ensure!(ks::slice_from_mut(m, a).len() == len - at, "slice_from_mut({a}) on {len} x (): konst len {}", ks::slice_from_mut(m, a).len());
    ensure!(ks::get_up_to_mut(m, a).map(|x| x.len()) == if a <= len { Some(a) } else { None }, "get_up_to_mut({a}) on {len} x ()");
    ensure!(ks::slice_up_to_mut(m, a).len() == at, "slice_up_to_mut({a}) on {len} x ()");
    let (x, y) = ks::split_at_mut(m, a);
    ensure!(x.len() == at && y.len() == len - at, "split_at_mut({a}) on {len} x (): konst ({}, {})", x.len(), y.len());
    ensure!(ks::get_range_mut(m, a, b).map(|x| x.len()) == l(s.get(a..b)), "get_range_mut({a},{b}) on {len} x (): konst {:?}", ks::get_range_mut(m, a, b).map(|x| x.len()));
    ensure!(ks::slice_range_mut(m, a, b).len() == want, "slice_range_mut({a},{b}) on {len} x (): konst len {}", ks::slice_range_mut(m, a, b).len());
    // chunk conversions
    macro_rules! chunks {
        ($($n:literal)*) => {$(
            let (kc, kr) = ks::as_chunks::<(), $n>(s);
            let (oc, or) = s.as_chunks::<$n>();
            ensure!(kc.len() == oc.len() && kr.len() == or.len(), "as_chunks::<{}> on {len} x (): konst ({}, {}) std ({}, {})", $n, kc.len(), kr.len(), oc.len(), or.len());
            let (kr, kc) = ks::as_rchunks::<(), $n>(s);
            let (or, oc) = s.as_rchunks::<$n>();
            ensure!(kc.len() == oc.len() && kr.len() == or.len(), "as_rchunks::<{}> on {len} x (): konst ({}, {}) std ({}, {})", $n, kr.len(), kc.len(), or.len(), oc.len());
        )*};
    }
    chunks!(1 2 3 7 4096);
    // chunk sizes that only a zero-sized element type allows: [(); N] with N above isize::MAX is a valid type
    {
        const BIG: usize = isize::MAX as usize + 1;
        let (kc, kr) = ks::as_chunks::<(), BIG>(s);
        let (oc, or) = s.as_chunks::<BIG>();
        ensure!(kc.len() == oc.len() && kr.len() == or.len(), "as_chunks::<isize::MAX+1> on {len} x (): konst ({}, {}) std ({}, {})", kc.len(), kr.len(), oc.len(), or.len());
        let (kr, kc) = ks::as_rchunks::<(), BIG>(s);
        let (or, oc) = s.as_rchunks::<BIG>();
        ensure!(kc.len() == oc.len() && kr.len() == or.len(), "as_rchunks::<isize::MAX+1> on {len} x (): konst ({}, {}) std ({}, {})", kr.len(), kc.len(), or.len(), oc.len());
        let (kc, kr) = ks::as_chunks::<(), { usize::MAX }>(s);
        let (oc, or) = s.as_chunks::<{ usize::MAX }>();
        ensure!(kc.len() == oc.len() && kr.len() == or.len(), "as_chunks::<usize::MAX> on {len} x (): konst ({}, {}) std ({}, {})", kc.len(), kr.len(), oc.len(), or.len());
        ensure!(ks::try_into_array::<(), BIG>(s).is_ok() == (len == BIG), "try_into_array::<isize::MAX+1> on {len} x ()");
    }
    ensure!(ks::try_into_array::<(), 3>(s).is_ok() == (len == 3), "try_into_array::<3> on {len} x ()");
    Ok(())
}

pub fn run_case(c: &Case) -> Result<(), String> {
    if c.group == Group::HugeZst {
        return check_huge_zst(c.len, c.a, c.b);
    }
    macro_rules! dispatch {
        ($t:ty) => {
            match c.group {
                Group::Len => check_len::<$t>(c.len),
                Group::Idx => check_idx::<$t>(c.len, c.a),
                Group::Range => check_range::<$t>(c.len, c.a, c.b),
                Group::HugeZst => unreachable!(),
            }
        };
    }
    match c.elem {
        Elem::U8 => dispatch!(u8),
        Elem::U64 => dispatch!(u64),
        Elem::Unit => dispatch!(()),
        Elem::Str => dispatch!(String),
        Elem::Arr3 => dispatch!([u8; 3]),
        Elem::Aligned32 => dispatch!(A32),
        Elem::Big72 => dispatch!([u64; 9]),
    }
}

fn eval(ctx: &mut Ctx, c: Case) {
    let nt = match c.group {
        Group::Len => matches!(c.elem, Elem::Unit | Elem::Str) || c.len <= 8,
        Group::Idx => gen::edgy_index(c.a, c.len) || matches!(c.elem, Elem::Unit | Elem::Str),
        Group::Range => {
            gen::edgy_index(c.a, c.len)
                || gen::edgy_index(c.b, c.len)
                || c.a > c.b
                || matches!(c.elem, Elem::Unit | Elem::Str)
        }
        Group::HugeZst => true,
    };
    ctx.case("slice_index", &c, |ctx| {
        match c.group {
            Group::Len => ctx.label("group=len"),
            Group::Idx => {
                ctx.label(if c.a > c.len { "idx>len" } else if c.a == c.len { "idx==len" } else { "idx<len" });
                if c.a >= isize::MAX as usize {
                    ctx.label("idx>=isize::MAX");
                }
            }
            Group::HugeZst => {
                ctx.label("huge_zst");
                if c.a > isize::MAX as usize && c.a <= c.len {
                    ctx.label("huge_zst:valid index > isize::MAX");
                }
            }
            Group::Range => {
                ctx.label(if c.a > c.b { "start>end" } else { "start<=end" });
                if c.b > c.len {
                    ctx.label("end>len");
                }
            }
        }
        if nt {
            let cls = format!("{:?}/{:?}", c.group, c.elem);
            ctx.nontrivial(&cls, &c, || json!(c));
        }
        run_case(&c)
    });
}

fn explore(ctx: &mut Ctx) {
    let mut lens: Vec<usize> = (0..=ctx.by_tier(16, 33)).collect();
    lens.extend_from_slice(&[17, 30, 31, 32, 33, 34, 63, 64, 65, 66, 128, 129, 1000]);
    lens.sort_unstable();
    lens.dedup();
    for &len in &lens {
        for elem in ELEMS {
            if len > 64 && matches!(elem, Elem::Str) {
                continue;
            }
            eval(ctx, Case { elem, group: Group::Len, len, a: 0, b: 0 });
            let idx = gen::index_set(len);
            for &a in &idx {
                eval(ctx, Case { elem, group: Group::Idx, len, a, b: 0 });
                if len > 64 && ctx.quick() {
                    continue;
                }
                for &b in &idx {
                    eval(ctx, Case { elem, group: Group::Range, len, a, b });
                }
            }
        }
        if ctx.too_many() {
            return;
        }
    }
    ctx.exhaustive_part(&format!(
        "lengths {{0..={},64,1000}} x 7 element types (u8, u64, (), String, [u8;3], a 32-byte-aligned struct, [u64;9]) x index set {{0..=len+2, usize::MAX, usize::MAX-1, isize::MAX-1..=isize::MAX+1, usize::MAX-len(+1)}} x all pairs; N in {{0,1,2,3,4,5,7,8,9,15,16,17,31,32,33,64}} for array/chunk conversions, N = len + 2^8 / 2^16 / 2^32 / 2^40 / 2^56 for try_into_array(_mut); indices also small + 2^8 / 2^16 / 2^32 / 2^63",
        ctx.by_tier(16, 33)
    ));
    // zero-sized elements, more than isize::MAX of them
    let im = isize::MAX as usize;
    for len in [(1usize << 16) + 3, (1usize << 32) + 3, (1usize << 32) + 4096, im - 1, im, im + 1, im + 12_345, (im / 2) * 3, usize::MAX - 1, usize::MAX] {
        let mut idx = vec![0, 1, 2, 4095, 4096, 1 << 62, im - 1, im, im + 1, im + 2, im + 7, im + 12_344, (im / 2) * 3, usize::MAX - 1, usize::MAX];
        idx.extend_from_slice(&[len.wrapping_sub(2), len.wrapping_sub(1), len, len.wrapping_add(1)]);
        idx.sort_unstable();
        idx.dedup();
        for &a in &idx {
            for &b in &idx {
                eval(ctx, Case { elem: Elem::Unit, group: Group::HugeZst, len, a, b });
            }
        }
    }
    ctx.exhaustive_part("zero-sized elements: 10 slice lengths (2^16+3, 2^32+3, 2^32+4096, isize::MAX-1 .. usize::MAX) x 19 indices^2 (incl. valid indices above isize::MAX), lengths of all results compared with std");
    // random: arbitrary usize indices, lengths up to 200
    let n = ctx.by_tier(200_000, 2_000_000);
    let strat = (
        0usize..7,
        prop_oneof![0usize..20, 0usize..200],
        idx_strategy(),
        idx_strategy(),
        0usize..3,
    );
    ctx.prop("slice_index", n, strat, |ctx, &(e, len, a, b, g)| {
        let elem = ELEMS[e];
        let len = if elem == Elem::Str { len.min(40) } else { len };
        // indices drawn relative to len half of the time
        let a = fold_idx(a, len);
        let b = fold_idx(b, len);
        let c = Case { elem, group: [Group::Len, Group::Idx, Group::Range][g], len, a, b };
        ctx.label("random");
        if gen::edgy_index(a, len) || a > b {
            ctx.nontrivial("random", &c, || json!(c));
        }
        run_case(&c)
    });
}

/// (selector, raw)
fn idx_strategy() -> impl Strategy<Value = (u8, usize)> {
    (0u8..4, any::<usize>())
}
fn fold_idx((sel, raw): (u8, usize), len: usize) -> usize {
    match sel {
        0 => raw % (len + 3),
        1 => raw,
        2 => usize::MAX - (raw % (len + 3)),
        _ => (isize::MAX as usize).wrapping_add(raw % 5).wrapping_sub(2),
    }
}

fn main() {
    kvh::on_thread(real_main);
}

fn real_main() {
    let args = kvh::parse_args("C02", "c02");
    let mut ctx = Ctx::new(args.clone(), RULE);
    if let Some(p) = &args.replay {
        let (_check, case) = kvh::load_replay(p);
        // random-engine cases are stored as tuples; exhaustive ones as Case
        let c: Case = match serde_json::from_value::<Case>(case.clone()) {
            Ok(c) => c,
            Err(_) => {
                let (e, len, a, b, g): (usize, usize, (u8, usize), (u8, usize), usize) =
                    serde_json::from_value(case).expect("replay case");
                let elem = ELEMS[e];
                let len = if elem == Elem::Str { len.min(40) } else { len };
                Case { elem, group: [Group::Len, Group::Idx, Group::Range][g], len, a: fold_idx(a, len), b: fold_idx(b, len) }
            }
        };
        println!("replaying {:?}", c);
        ctx.case("slice_index", &c, |_| run_case(&c));
    } else {
        explore(&mut ctx);
    }
    std::process::exit(ctx.finish());
}

//! C16 — comparison functions and macros agree with std equality and ordering.
#![allow(clippy::all)]
use core::cmp::Ordering;
use core::num::*;
use konst::nonzero::cmp::*;
use konst::other::cmp::*;
use konst::primitive::cmp::*;
use konst::range::cmp::*;
use konst::slice::cmp::*;
use konst::slice::{cmp_bytes, cmp_option_bytes, eq_bytes, eq_option_bytes};
use konst::{assertc_eq, assertc_ne, cmp_option_str, cmp_str, const_cmp, const_cmp_for, const_eq, const_eq_for, eq_option_str, eq_str};
use kvh::{catch, Ctx};
use proptest::prelude::*;
use serde::{Deserialize, Serialize};
use serde_json::json;

const RULE: &str = "cases = (type, left value, right value, Some/None flags) with values given as index lists into a per-type table of boundary values (MIN, MIN+1, -1, 0, 1, MAX-1, MAX, half-width boundaries 2^(W/2)-1 / 2^(W/2) and pairs with equal upper half whose lower halves differ in their top bit; false/true; '\\0','a',U+D7FF,U+E000,U+10FFFF) - scalars: all pairs, slices: all sequences of length <= 3 over three values, all pairs; oracle = PartialEq::eq / Ord::cmp on the same values for every eq_*/cmp_* function, const_eq!/const_cmp!, coerce_to_cmp!(..).const_eq/const_cmp, try_equal! chains, const_eq_for!/const_cmp_for! (all comparator forms), the Option variants in all 4 Some/None combinations, assertc_eq!/assertc_ne! (panic iff != / ==); plus order laws on konst's own results over all triples; non-trivial = slices of different length whose first difference favours the shorter one, Option mixes, or boundary scalars; distinct by the whole tuple";

#[derive(Serialize, Deserialize, Debug, Clone, Hash)]
pub struct Case {
    ty: String,
    /// "scalar" | "slice" | "str" | "strs" | "bytess" | "range" | "misc" | "laws"
    form: String,
    a: Vec<usize>,
    b: Vec<usize>,
    /// wrap in Some (true) or use None (false) for the Option variants; [true,true] also runs the plain functions
    some_a: bool,
    some_b: bool,
}

macro_rules! ensure {
    ($c:expr, $($fmt:tt)*) => { if !$c { return Err(format!($($fmt)*)); } };
}

fn opt<T>(some: bool, v: T) -> Option<T> {
    if some {
        Some(v)
    } else {
        None
    }
}

/// generates `fn $fname(c: &Case) -> Result<(), String>` checking every function / macro for scalar type $t
macro_rules! scalar_type {
    ($fname:ident, $vals:ident, $t:ty, [$($v:expr),* $(,)?], $cmp:ident, $eqo:ident, $cmpo:ident, $eqs:ident, $cmps:ident, $eqos:ident, $cmpos:ident) => {
        const $vals: &[$t] = &[$($v),*];
        fn $fname(c: &Case) -> Result<(), String> {
            let tn = stringify!($t);
            if c.form == "scalar" {
                let (a, b): ($t, $t) = ($vals[c.a[0]], $vals[c.b[0]]);
                let (oa, ob) = (opt(c.some_a, a), opt(c.some_b, b));
                let (weq, wcmp) = (oa == ob, oa.cmp(&ob));
                let k = $eqo(oa, ob);
                ensure!(k == weq, "{}({oa:?},{ob:?}) = {k}, == gives {weq}", stringify!($eqo));
                let k = $cmpo(oa, ob);
                ensure!(k == wcmp, "{}({oa:?},{ob:?}) = {k:?}, Ord::cmp gives {wcmp:?}", stringify!($cmpo));
                let k = const_eq!(oa, ob);
                ensure!(k == weq, "const_eq!({oa:?},{ob:?}) [Option<{tn}>] = {k}");
                let k = const_cmp!(oa, ob);
                ensure!(k == wcmp, "const_cmp!({oa:?},{ob:?}) [Option<{tn}>] = {k:?}, expected {wcmp:?}");
                let k = const_eq_for!(option; oa, ob);
                ensure!(k == weq, "const_eq_for!(option; {oa:?},{ob:?}) = {k}");
                let k = const_eq_for!(option; oa, ob, |l, r| *l == *r);
                ensure!(k == weq, "const_eq_for!(option; {oa:?},{ob:?}, |l,r|) = {k}");
                let k = const_eq_for!(option; oa, ob, |x| *x);
                ensure!(k == weq, "const_eq_for!(option; {oa:?},{ob:?}, |x| *x) = {k}");
                let k = const_cmp_for!(option; oa, ob);
                ensure!(k == wcmp, "const_cmp_for!(option; {oa:?},{ob:?}) = {k:?}, expected {wcmp:?}");
                let k = const_cmp_for!(option; oa, ob, |l, r| $cmp(*l, *r));
                ensure!(k == wcmp, "const_cmp_for!(option; {oa:?},{ob:?}, |l,r|) = {k:?}, expected {wcmp:?}");
                let k = const_cmp_for!(option; oa, ob, |x| *x);
                ensure!(k == wcmp, "const_cmp_for!(option; {oa:?},{ob:?}, |x| *x) = {k:?}, expected {wcmp:?}");
                if c.some_a && c.some_b {
                    let k = $cmp(a, b);
                    ensure!(k == a.cmp(&b), "{}({a:?},{b:?}) = {k:?}, Ord::cmp gives {:?}", stringify!($cmp), a.cmp(&b));
                    let k = const_eq!(a, b);
                    ensure!(k == (a == b), "const_eq!({a:?},{b:?}) [{tn}] = {k}");
                    let k = const_cmp!(a, b);
                    ensure!(k == a.cmp(&b), "const_cmp!({a:?},{b:?}) [{tn}] = {k:?}");
                    // each argument expression is evaluated exactly once, left before right
                    let n = std::cell::Cell::new(0u32);
                    let k = const_eq!({ n.set(n.get() * 10 + 1); a }, { n.set(n.get() * 10 + 2); b });
                    ensure!(k == (a == b) && n.get() == 12, "const_eq!({a:?},{b:?}) [{tn}] with counting arguments: result {k}, evaluation trace {} (expected 12)", n.get());
                    n.set(0);
                    let k = const_cmp!({ n.set(n.get() * 10 + 1); a }, { n.set(n.get() * 10 + 2); b });
                    ensure!(k == a.cmp(&b) && n.get() == 12, "const_cmp!({a:?},{b:?}) [{tn}] with counting arguments: result {k:?}, evaluation trace {} (expected 12)", n.get());
                    // the method form behind the macros, and try_equal! (early return unless Equal)
                    let k = konst::coerce_to_cmp!(a).const_eq(&b);
                    ensure!(k == (a == b), "coerce_to_cmp!({a:?}).const_eq(&{b:?}) [{tn}] = {k}");
                    let k = konst::coerce_to_cmp!(a).const_cmp(&b);
                    ensure!(k == a.cmp(&b), "coerce_to_cmp!({a:?}).const_cmp(&{b:?}) [{tn}] = {k:?}");
                    let k = (|| -> Ordering {
                        konst::try_equal!(const_cmp!(a, b));
                        konst::try_equal!(const_cmp!(b, a));
                        Ordering::Equal
                    })();
                    ensure!(k == a.cmp(&b).then(b.cmp(&a)), "try_equal!(const_cmp!({a:?},{b:?})) chain [{tn}] = {k:?}");
                    let p = catch(|| { assertc_eq!(a, b); }).is_err();
                    ensure!(p == (a != b), "assertc_eq!({a:?},{b:?}) panicked={p}");
                    let p = catch(|| { assertc_ne!(a, b); }).is_err();
                    ensure!(p == (a == b), "assertc_ne!({a:?},{b:?}) panicked={p}");
                    // argument expressions with effects: each is evaluated once, left first, and the value that is
                    // compared is the value of that one evaluation (the left operand changes on a second evaluation)
                    for flip in [false, true] {
                        n.set(0);
                        let p = catch(|| { assertc_eq!({ n.set(n.get() * 10 + 1); if n.get() > 9 && flip { b } else { a } }, { n.set(n.get() * 10 + 2); b }); }).is_err();
                        ensure!(p == (a != b) && n.get() == 12, "assertc_eq!({a:?},{b:?}) [{tn}] with counting arguments: panicked={p}, evaluation trace {} (expected 12)", n.get());
                        n.set(0);
                        let p = catch(|| { assertc_ne!({ n.set(n.get() * 10 + 1); if n.get() > 9 && flip { b } else { a } }, { n.set(n.get() * 10 + 2); b }); }).is_err();
                        ensure!(p == (a == b) && n.get() == 12, "assertc_ne!({a:?},{b:?}) [{tn}] with counting arguments: panicked={p}, evaluation trace {} (expected 12)", n.get());
                    }
                }
                Ok(())
            } else {
                let va: Vec<$t> = c.a.iter().map(|&i| $vals[i]).collect();
                let vb: Vec<$t> = c.b.iter().map(|&i| $vals[i]).collect();
                let (a, b): (&[$t], &[$t]) = (&va, &vb);
                let (oa, ob) = (opt(c.some_a, a), opt(c.some_b, b));
                let (weq, wcmp) = (oa == ob, oa.cmp(&ob));
                let k = $eqos(oa, ob);
                ensure!(k == weq, "{}({oa:?},{ob:?}) = {k}, == gives {weq}", stringify!($eqos));
                let k = $cmpos(oa, ob);
                ensure!(k == wcmp, "{}({oa:?},{ob:?}) = {k:?}, Ord::cmp gives {wcmp:?}", stringify!($cmpos));
                let k = const_eq!(oa, ob);
                ensure!(k == weq, "const_eq!({oa:?},{ob:?}) [Option<&[{tn}]>] = {k}");
                let k = const_cmp!(oa, ob);
                ensure!(k == wcmp, "const_cmp!({oa:?},{ob:?}) [Option<&[{tn}]>] = {k:?}, expected {wcmp:?}");
                let k = const_cmp_for!(option; oa, ob, |l, r| $cmps(l, r));
                ensure!(k == wcmp, "const_cmp_for!(option; {oa:?},{ob:?}, |l,r| {}) = {k:?}, expected {wcmp:?}", stringify!($cmps));
                if c.some_a && c.some_b {
                    let (weq, wcmp) = (a == b, a.cmp(b));
                    let k = $eqs(a, b);
                    ensure!(k == weq, "{}({a:?},{b:?}) = {k}, == gives {weq}", stringify!($eqs));
                    let k = $cmps(a, b);
                    ensure!(k == wcmp, "{}({a:?},{b:?}) = {k:?}, Ord::cmp gives {wcmp:?}", stringify!($cmps));
                    let k = const_eq!(a, b);
                    ensure!(k == weq, "const_eq!({a:?},{b:?}) [&[{tn}]] = {k}");
                    let k = const_cmp!(a, b);
                    ensure!(k == wcmp, "const_cmp!({a:?},{b:?}) [&[{tn}]] = {k:?}, Ord::cmp gives {wcmp:?}");
                    let k = konst::coerce_to_cmp!(a).const_eq(&b);
                    ensure!(k == weq, "coerce_to_cmp!({a:?}).const_eq(&{b:?}) [&[{tn}]] = {k}");
                    let k = konst::coerce_to_cmp!(a).const_cmp(&b);
                    ensure!(k == wcmp, "coerce_to_cmp!({a:?}).const_cmp(&{b:?}) [&[{tn}]] = {k:?}, Ord::cmp gives {wcmp:?}");
                    let k = const_eq_for!(slice; a, b);
                    ensure!(k == weq, "const_eq_for!(slice; {a:?},{b:?}) = {k}");
                    let k = const_eq_for!(slice; a, b, |x| *x);
                    ensure!(k == weq, "const_eq_for!(slice; {a:?},{b:?}, |x| *x) = {k}");
                    let k = const_eq_for!(slice; a, b, |l, r| *l == *r);
                    ensure!(k == weq, "const_eq_for!(slice; {a:?},{b:?}, |l,r| l==r) = {k}");
                    let k = const_cmp_for!(slice; a, b);
                    ensure!(k == wcmp, "const_cmp_for!(slice; {a:?},{b:?}) = {k:?}, Ord::cmp gives {wcmp:?}");
                    let k = const_cmp_for!(slice; a, b, |x| *x);
                    ensure!(k == wcmp, "const_cmp_for!(slice; {a:?},{b:?}, |x| *x) = {k:?}, Ord::cmp gives {wcmp:?}");
                    let k = const_cmp_for!(slice; a, b, |l, r| $cmp(*l, *r));
                    ensure!(k == wcmp, "const_cmp_for!(slice; {a:?},{b:?}, |l,r| cmp) = {k:?}, Ord::cmp gives {wcmp:?}");
                    // arrays of equal length go through the array coercion of const_eq!/const_cmp!
                    if a.len() == 2 && b.len() == 2 {
                        let (xa, xb): ([$t; 2], [$t; 2]) = ([a[0], a[1]], [b[0], b[1]]);
                        let k = const_eq!(xa, xb);
                        ensure!(k == (xa == xb), "const_eq!({xa:?},{xb:?}) [[{tn};2]] = {k}");
                        let k = const_cmp!(xa, xb);
                        ensure!(k == xa.cmp(&xb), "const_cmp!({xa:?},{xb:?}) [[{tn};2]] = {k:?}");
                    }
                }
                Ok(())
            }
        }
    };
}

scalar_type!(ck_u8, V_U8, u8, [0, 1, 127, 128, 254, 255], cmp_u8, eq_option_u8, cmp_option_u8, eq_slice_u8, cmp_slice_u8, eq_option_slice_u8, cmp_option_slice_u8);
scalar_type!(ck_u16, V_U16, u16, [0, 1, 255, 256, u16::MAX - 1, u16::MAX, 0x00FF, 0x0100, 0x0080, 0x1201, 0x1281], cmp_u16, eq_option_u16, cmp_option_u16, eq_slice_u16, cmp_slice_u16, eq_option_slice_u16, cmp_option_slice_u16);
scalar_type!(ck_u32, V_U32, u32, [0, 1, 1 << 31, u32::MAX - 1, u32::MAX, 0xFFFF, 0x1_0000, 0x8000, 0x1234_0001, 0x1234_8001], cmp_u32, eq_option_u32, cmp_option_u32, eq_slice_u32, cmp_slice_u32, eq_option_slice_u32, cmp_option_slice_u32);
scalar_type!(ck_u64, V_U64, u64, [0, 1, 1 << 32, 1 << 63, u64::MAX - 1, u64::MAX, u32::MAX as u64, 1 << 31, 0x1234_5678_0000_0001, 0x1234_5678_8000_0001], cmp_u64, eq_option_u64, cmp_option_u64, eq_slice_u64, cmp_slice_u64, eq_option_slice_u64, cmp_option_slice_u64);
scalar_type!(ck_u128, V_U128, u128, [0, 1, 1 << 64, 1 << 127, u128::MAX - 1, u128::MAX, u64::MAX as u128, 1 << 63, (0x0123_4567_89AB_CDEF << 64) | 1, (0x0123_4567_89AB_CDEF << 64) | (1 << 63) | 1], cmp_u128, eq_option_u128, cmp_option_u128, eq_slice_u128, cmp_slice_u128, eq_option_slice_u128, cmp_option_slice_u128);
scalar_type!(ck_usize, V_USIZE, usize, [0, 1, isize::MAX as usize, usize::MAX - 1, usize::MAX], cmp_usize, eq_option_usize, cmp_option_usize, eq_slice_usize, cmp_slice_usize, eq_option_slice_usize, cmp_option_slice_usize);
scalar_type!(ck_i8, V_I8, i8, [i8::MIN, i8::MIN + 1, -1, 0, 1, i8::MAX - 1, i8::MAX], cmp_i8, eq_option_i8, cmp_option_i8, eq_slice_i8, cmp_slice_i8, eq_option_slice_i8, cmp_option_slice_i8);
scalar_type!(ck_i16, V_I16, i16, [i16::MIN, i16::MIN + 1, -1, 0, 1, i16::MAX - 1, i16::MAX, 0x00FF, 0x0100, -0x0100, 0x1201, 0x1281], cmp_i16, eq_option_i16, cmp_option_i16, eq_slice_i16, cmp_slice_i16, eq_option_slice_i16, cmp_option_slice_i16);
scalar_type!(ck_i32, V_I32, i32, [i32::MIN, i32::MIN + 1, -1, 0, 1, i32::MAX - 1, i32::MAX, 0xFFFF, 0x1_0000, -0x1_0000, 0x1234_0001, 0x1234_8001], cmp_i32, eq_option_i32, cmp_option_i32, eq_slice_i32, cmp_slice_i32, eq_option_slice_i32, cmp_option_slice_i32);
scalar_type!(ck_i64, V_I64, i64, [i64::MIN, i64::MIN + 1, -1, 0, 1, i64::MAX - 1, i64::MAX, u32::MAX as i64, i32::MIN as i64, -(1 << 32), 0x1234_5678_0000_0001, 0x1234_5678_8000_0001], cmp_i64, eq_option_i64, cmp_option_i64, eq_slice_i64, cmp_slice_i64, eq_option_slice_i64, cmp_option_slice_i64);
scalar_type!(ck_i128, V_I128, i128, [i128::MIN, i128::MIN + 1, -1, 0, 1, i128::MAX - 1, i128::MAX, u64::MAX as i128, i64::MIN as i128, 1 << 63, -((0x0123_4567_89AB_CDEF << 64) | 1), (0x0123_4567_89AB_CDEF << 64) | 1, (0x0123_4567_89AB_CDEF << 64) | (1 << 63) | 1], cmp_i128, eq_option_i128, cmp_option_i128, eq_slice_i128, cmp_slice_i128, eq_option_slice_i128, cmp_option_slice_i128);
scalar_type!(ck_isize, V_ISIZE, isize, [isize::MIN, isize::MIN + 1, -1, 0, 1, isize::MAX - 1, isize::MAX], cmp_isize, eq_option_isize, cmp_option_isize, eq_slice_isize, cmp_slice_isize, eq_option_slice_isize, cmp_option_slice_isize);
scalar_type!(ck_bool, V_BOOL, bool, [false, true], cmp_bool, eq_option_bool, cmp_option_bool, eq_slice_bool, cmp_slice_bool, eq_option_slice_bool, cmp_option_slice_bool);
scalar_type!(ck_char, V_CHAR, char, ['\0', 'a', '\u{7f}', '\u{80}', '\u{d7ff}', '\u{e000}', '\u{10ffff}'], cmp_char, eq_option_char, cmp_option_char, eq_slice_char, cmp_slice_char, eq_option_slice_char, cmp_option_slice_char);

/// (name, scalar value count, checker)
const SCALARS: [(&str, usize, fn(&Case) -> Result<(), String>); 14] = [
    ("u8", 6, ck_u8),
    ("u16", 11, ck_u16),
    ("u32", 10, ck_u32),
    ("u64", 10, ck_u64),
    ("u128", 10, ck_u128),
    ("usize", 5, ck_usize),
    ("i8", 7, ck_i8),
    ("i16", 12, ck_i16),
    ("i32", 12, ck_i32),
    ("i64", 12, ck_i64),
    ("i128", 13, ck_i128),
    ("isize", 7, ck_isize),
    ("bool", 2, ck_bool),
    ("char", 7, ck_char),
];

macro_rules! nonzero_type {
    ($fname:ident, $nz:ty, $prim:ty, [$($v:expr),*], $eq:ident, $cmp:ident, $eqo:ident, $cmpo:ident) => {
        fn $fname(c: &Case) -> Result<(), String> {
            let vals: &[$prim] = &[$($v),*];
            let (a, b) = (<$nz>::new(vals[c.a[0]]).unwrap(), <$nz>::new(vals[c.b[0]]).unwrap());
            let (oa, ob) = (opt(c.some_a, a), opt(c.some_b, b));
            let (weq, wcmp) = (oa == ob, oa.cmp(&ob));
            let k = $eqo(oa, ob);
            ensure!(k == weq, "{}({oa:?},{ob:?}) = {k}", stringify!($eqo));
            let k = $cmpo(oa, ob);
            ensure!(k == wcmp, "{}({oa:?},{ob:?}) = {k:?}, expected {wcmp:?}", stringify!($cmpo));
            let k = const_eq!(oa, ob);
            ensure!(k == weq, "const_eq!({oa:?},{ob:?}) = {k}");
            let k = const_cmp!(oa, ob);
            ensure!(k == wcmp, "const_cmp!({oa:?},{ob:?}) = {k:?}, expected {wcmp:?}");
            if c.some_a && c.some_b {
                let k = $eq(a, b);
                ensure!(k == (a == b), "{}({a:?},{b:?}) = {k}", stringify!($eq));
                let k = $cmp(a, b);
                ensure!(k == a.cmp(&b), "{}({a:?},{b:?}) = {k:?}", stringify!($cmp));
                ensure!(const_eq!(a, b) == (a == b), "const_eq!({a:?},{b:?}) wrong");
                ensure!(const_cmp!(a, b) == a.cmp(&b), "const_cmp!({a:?},{b:?}) wrong");
            }
            Ok(())
        }
    };
}
nonzero_type!(ck_nzu8, NonZeroU8, u8, [1, 2, 127, 128, 255], eq_nonzerou8, cmp_nonzerou8, eq_option_nonzerou8, cmp_option_nonzerou8);
nonzero_type!(ck_nzi8, NonZeroI8, i8, [i8::MIN, -1, 1, 2, i8::MAX], eq_nonzeroi8, cmp_nonzeroi8, eq_option_nonzeroi8, cmp_option_nonzeroi8);
nonzero_type!(ck_nzu16, NonZeroU16, u16, [1, 2, 255, 256, u16::MAX], eq_nonzerou16, cmp_nonzerou16, eq_option_nonzerou16, cmp_option_nonzerou16);
nonzero_type!(ck_nzi16, NonZeroI16, i16, [i16::MIN, -1, 1, 2, i16::MAX], eq_nonzeroi16, cmp_nonzeroi16, eq_option_nonzeroi16, cmp_option_nonzeroi16);
nonzero_type!(ck_nzu32, NonZeroU32, u32, [1, 2, 1 << 31, u32::MAX - 1, u32::MAX], eq_nonzerou32, cmp_nonzerou32, eq_option_nonzerou32, cmp_option_nonzerou32);
nonzero_type!(ck_nzi32, NonZeroI32, i32, [i32::MIN, -1, 1, 2, i32::MAX], eq_nonzeroi32, cmp_nonzeroi32, eq_option_nonzeroi32, cmp_option_nonzeroi32);
nonzero_type!(ck_nzu64, NonZeroU64, u64, [1, 2, 1 << 63, u64::MAX - 1, u64::MAX], eq_nonzerou64, cmp_nonzerou64, eq_option_nonzerou64, cmp_option_nonzerou64);
nonzero_type!(ck_nzi64, NonZeroI64, i64, [i64::MIN, -1, 1, 2, i64::MAX], eq_nonzeroi64, cmp_nonzeroi64, eq_option_nonzeroi64, cmp_option_nonzeroi64);
nonzero_type!(ck_nzu128, NonZeroU128, u128, [1, 2, 1 << 127, u128::MAX - 1, u128::MAX], eq_nonzerou128, cmp_nonzerou128, eq_option_nonzerou128, cmp_option_nonzerou128);
nonzero_type!(ck_nzi128, NonZeroI128, i128, [i128::MIN, -1, 1, 2, i128::MAX], eq_nonzeroi128, cmp_nonzeroi128, eq_option_nonzeroi128, cmp_option_nonzeroi128);
nonzero_type!(ck_nzusize, NonZeroUsize, usize, [1, 2, isize::MAX as usize, usize::MAX - 1, usize::MAX], eq_nonzerousize, cmp_nonzerousize, eq_option_nonzerousize, cmp_option_nonzerousize);
nonzero_type!(ck_nzisize, NonZeroIsize, isize, [isize::MIN, -1, 1, 2, isize::MAX], eq_nonzeroisize, cmp_nonzeroisize, eq_option_nonzeroisize, cmp_option_nonzeroisize);

const NONZEROS: [(&str, fn(&Case) -> Result<(), String>); 12] = [
    ("NonZeroU8", ck_nzu8),
    ("NonZeroI8", ck_nzi8),
    ("NonZeroU16", ck_nzu16),
    ("NonZeroI16", ck_nzi16),
    ("NonZeroU32", ck_nzu32),
    ("NonZeroI32", ck_nzi32),
    ("NonZeroU64", ck_nzu64),
    ("NonZeroI64", ck_nzi64),
    ("NonZeroU128", ck_nzu128),
    ("NonZeroI128", ck_nzi128),
    ("NonZeroUsize", ck_nzusize),
    ("NonZeroIsize", ck_nzisize),
];

macro_rules! range_type {
    ($fname:ident, $t:ty, [$($v:expr),*], $eqr:ident, $eqri:ident) => {
        /// a = [start index, end index]
        fn $fname(c: &Case) -> Result<(), String> {
            let vals: &[$t] = &[$($v),*];
            let n = vals.len();
            let c = &Case { a: c.a.iter().map(|&i| i % n).collect(), b: c.b.iter().map(|&i| i % n).collect(), ..c.clone() };
            let (a, b) = (vals[c.a[0]]..vals[c.a[1]], vals[c.b[0]]..vals[c.b[1]]);
            let w = a == b;
            let k = $eqr(&a, &b);
            ensure!(k == w, "{}({a:?},{b:?}) = {k}", stringify!($eqr));
            let k = const_eq!(a, b);
            ensure!(k == w, "const_eq!({a:?},{b:?}) = {k}");
            let k = const_eq_for!(range; a, b);
            ensure!(k == w, "const_eq_for!(range; {a:?},{b:?}) = {k}");
            let k = const_eq_for!(range; a, b, |l, r| *l == *r);
            ensure!(k == w, "const_eq_for!(range; {a:?},{b:?}, |l,r|) = {k}");
            let k = const_eq_for!(range; a, b, |x| *x);
            ensure!(k == w, "const_eq_for!(range; {a:?},{b:?}, |x| *x) = {k}");
            #[allow(unused_mut)]
            let (mut a, mut b) = (vals[c.a[0]]..=vals[c.a[1]], vals[c.b[0]]..=vals[c.b[1]]);
            // `some_a == false` / `some_b == false`: that operand has been iterated to exhaustion (short ranges only);
            // std's `==` then also compares the hidden `exhausted` flag
            let short = |r: &std::ops::RangeInclusive<$t>| (*r.end() as u128).wrapping_sub(*r.start() as u128) < 4 && r.start() <= r.end();
            let (xa, xb) = (!c.some_a && short(&a), !c.some_b && short(&b));
            if xa { for _ in a.by_ref() {} }
            if xb { for _ in b.by_ref() {} }
            let w = a == b;
            let k = $eqri(&a, &b);
            if (xa != xb) && k && !w && a.start() == b.start() && a.end() == b.end() {
                // alternative model of the listed finding: equal start()/end(), only the hidden flag differs
                let k2 = const_eq!(a, b);
                let k3 = const_eq_for!(range_inclusive; a, b);
                ensure!(k2 && k3, "{}({a:?},{b:?}) = {k} but const_eq! = {k2}, const_eq_for! = {k3}", stringify!($eqri));
                return Err(format!("EXHAUSTED_RANGE {}({a:?}, {b:?}) = true, `==` gives false: one operand has been iterated to exhaustion", stringify!($eqri)));
            }
            ensure!(k == w, "{}({a:?},{b:?}) = {k}", stringify!($eqri));
            let k = const_eq!(a, b);
            ensure!(k == w, "const_eq!({a:?},{b:?}) = {k}");
            let k = const_eq_for!(range_inclusive; a, b);
            ensure!(k == w, "const_eq_for!(range_inclusive; {a:?},{b:?}) = {k}");
            let k = const_eq_for!(range_inclusive; a, b, |l, r| **l == **r);
            ensure!(k == w, "const_eq_for!(range_inclusive; {a:?},{b:?}, |l,r|) = {k}");
            Ok(())
        }
    };
}
// the first three values are the boundary values; the others are a small value and values congruent to it modulo
// 2^8, 2^16, 2^32, 2^64 (bounds that agree after a narrowing cast must still compare unequal)
range_type!(ck_r_u8, u8, [0, 1, 255, 5, 133], eq_range_u8, eq_rangeinc_u8);
range_type!(ck_r_u16, u16, [0, 1, u16::MAX, 5, 5 + (1 << 8), 5 + (1 << 15)], eq_range_u16, eq_rangeinc_u16);
range_type!(ck_r_u32, u32, [0, 1, u32::MAX, 5, 5 + (1 << 8), 5 + (1 << 16), 5 + (1 << 31)], eq_range_u32, eq_rangeinc_u32);
range_type!(ck_r_u64, u64, [0, 1, u64::MAX, 5, 5 + (1 << 8), 5 + (1 << 16), 5 + (1 << 32), 5 + (1 << 63)], eq_range_u64, eq_rangeinc_u64);
range_type!(ck_r_u128, u128, [0, 1, u128::MAX, 5, 5 + (1 << 8), 5 + (1 << 16), 5 + (1 << 32), 5 + (1 << 64), 5 + (1 << 127)], eq_range_u128, eq_rangeinc_u128);
range_type!(ck_r_usize, usize, [0, 1, usize::MAX, 5, 5 + (1 << 8), 5 + (1 << 16), 5 + (1 << 32), 5 + (1 << 63)], eq_range_usize, eq_rangeinc_usize);
range_type!(ck_r_char, char, ['\0', 'a', '\u{10ffff}', '\u{161}', '\u{10061}'], eq_range_char, eq_rangeinc_char);
/// (name, check, number of values in its table)
const RANGES: [(&str, fn(&Case) -> Result<(), String>, usize); 7] =
    [("Range<u8>", ck_r_u8, 5), ("Range<u16>", ck_r_u16, 6), ("Range<u32>", ck_r_u32, 7), ("Range<u64>", ck_r_u64, 8), ("Range<u128>", ck_r_u128, 9), ("Range<usize>", ck_r_usize, 8), ("Range<char>", ck_r_char, 5)];

const STR_ALPHA: [&str; 4] = ["a", "b", "é", "\0"];
fn mk_str(ix: &[usize]) -> String {
    ix.iter().map(|&i| STR_ALPHA[i]).collect()
}
/// table of short strings used as *elements* of &[&str] / &[&[u8]]
const ELEMS: [&str; 5] = ["", "a", "ab", "b", "a\0"];

fn ck_str(c: &Case) -> Result<(), String> {
    let (sa, sb) = (mk_str(&c.a), mk_str(&c.b));
    let (a, b): (&str, &str) = (&sa, &sb);
    let (oa, ob) = (opt(c.some_a, a), opt(c.some_b, b));
    let (weq, wcmp) = (oa == ob, oa.cmp(&ob));
    let k = eq_option_str(oa, ob);
    ensure!(k == weq, "eq_option_str({oa:?},{ob:?}) = {k}");
    let k = cmp_option_str(oa, ob);
    ensure!(k == wcmp, "cmp_option_str({oa:?},{ob:?}) = {k:?}, expected {wcmp:?}");
    ensure!(const_eq!(oa, ob) == weq, "const_eq!({oa:?},{ob:?}) wrong");
    ensure!(const_cmp!(oa, ob) == wcmp, "const_cmp!({oa:?},{ob:?}) = {:?}, expected {wcmp:?}", const_cmp!(oa, ob));
    if c.some_a && c.some_b {
        let k = eq_str(a, b);
        ensure!(k == (a == b), "eq_str({a:?},{b:?}) = {k}");
        let k = cmp_str(a, b);
        ensure!(k == a.cmp(b), "cmp_str({a:?},{b:?}) = {k:?}, Ord::cmp gives {:?}", a.cmp(b));
        ensure!(const_eq!(a, b) == (a == b), "const_eq!({a:?},{b:?}) wrong");
        ensure!(const_cmp!(a, b) == a.cmp(b), "const_cmp!({a:?},{b:?}) = {:?}", const_cmp!(a, b));
        let p = catch(|| { assertc_eq!(a, b); }).is_err();
        ensure!(p == (a != b), "assertc_eq!({a:?},{b:?}) panicked={p}");
        let p = catch(|| { assertc_ne!(a, b); }).is_err();
        ensure!(p == (a == b), "assertc_ne!({a:?},{b:?}) panicked={p}");
        // the same bytes through the byte-slice functions
        let (ba, bb) = (a.as_bytes(), b.as_bytes());
        ensure!(eq_bytes(ba, bb) == (ba == bb), "eq_bytes({ba:?},{bb:?}) wrong");
        let k = cmp_bytes(ba, bb);
        ensure!(k == ba.cmp(bb), "cmp_bytes({ba:?},{bb:?}) = {k:?}, Ord::cmp gives {:?}", ba.cmp(bb));
    }
    let (oa, ob) = (oa.map(str::as_bytes), ob.map(str::as_bytes));
    ensure!(eq_option_bytes(oa, ob) == (oa == ob), "eq_option_bytes({oa:?},{ob:?}) wrong");
    let k = cmp_option_bytes(oa, ob);
    ensure!(k == oa.cmp(&ob), "cmp_option_bytes({oa:?},{ob:?}) = {k:?}, expected {:?}", oa.cmp(&ob));
    Ok(())
}

fn ck_strs(c: &Case) -> Result<(), String> {
    let va: Vec<&str> = c.a.iter().map(|&i| ELEMS[i]).collect();
    let vb: Vec<&str> = c.b.iter().map(|&i| ELEMS[i]).collect();
    let (a, b): (&[&str], &[&str]) = (&va, &vb);
    let (oa, ob) = (opt(c.some_a, a), opt(c.some_b, b));
    let (weq, wcmp) = (oa == ob, oa.cmp(&ob));
    ensure!(eq_option_slice_str(oa, ob) == weq, "eq_option_slice_str({oa:?},{ob:?}) wrong");
    let k = cmp_option_slice_str(oa, ob);
    ensure!(k == wcmp, "cmp_option_slice_str({oa:?},{ob:?}) = {k:?}, expected {wcmp:?}");
    ensure!(const_eq!(oa, ob) == weq, "const_eq!({oa:?},{ob:?}) wrong");
    ensure!(const_cmp!(oa, ob) == wcmp, "const_cmp!({oa:?},{ob:?}) = {:?}, expected {wcmp:?}", const_cmp!(oa, ob));
    if c.some_a && c.some_b {
        let (weq, wcmp) = (a == b, a.cmp(b));
        ensure!(eq_slice_str(a, b) == weq, "eq_slice_str({a:?},{b:?}) wrong");
        let k = cmp_slice_str(a, b);
        ensure!(k == wcmp, "cmp_slice_str({a:?},{b:?}) = {k:?}, Ord::cmp gives {wcmp:?}");
        ensure!(const_eq!(a, b) == weq, "const_eq!({a:?},{b:?}) wrong");
        ensure!(const_cmp!(a, b) == wcmp, "const_cmp!({a:?},{b:?}) = {:?}, expected {wcmp:?}", const_cmp!(a, b));
        ensure!(const_eq_for!(slice; a, b, eq_str) == weq, "const_eq_for!(slice; {a:?},{b:?}, eq_str) wrong");
        let k = const_cmp_for!(slice; a, b, cmp_str);
        ensure!(k == wcmp, "const_cmp_for!(slice; {a:?},{b:?}, cmp_str) = {k:?}, expected {wcmp:?}");
    }
    Ok(())
}

fn ck_bytess(c: &Case) -> Result<(), String> {
    let va: Vec<&[u8]> = c.a.iter().map(|&i| ELEMS[i].as_bytes()).collect();
    let vb: Vec<&[u8]> = c.b.iter().map(|&i| ELEMS[i].as_bytes()).collect();
    let (a, b): (&[&[u8]], &[&[u8]]) = (&va, &vb);
    let (oa, ob) = (opt(c.some_a, a), opt(c.some_b, b));
    let (weq, wcmp) = (oa == ob, oa.cmp(&ob));
    ensure!(eq_option_slice_bytes(oa, ob) == weq, "eq_option_slice_bytes({oa:?},{ob:?}) wrong");
    let k = cmp_option_slice_bytes(oa, ob);
    ensure!(k == wcmp, "cmp_option_slice_bytes({oa:?},{ob:?}) = {k:?}, expected {wcmp:?}");
    ensure!(const_eq!(oa, ob) == weq, "const_eq!({oa:?},{ob:?}) wrong");
    ensure!(const_cmp!(oa, ob) == wcmp, "const_cmp!({oa:?},{ob:?}) = {:?}, expected {wcmp:?}", const_cmp!(oa, ob));
    if c.some_a && c.some_b {
        let (weq, wcmp) = (a == b, a.cmp(b));
        ensure!(eq_slice_bytes(a, b) == weq, "eq_slice_bytes({a:?},{b:?}) wrong");
        let k = cmp_slice_bytes(a, b);
        ensure!(k == wcmp, "cmp_slice_bytes({a:?},{b:?}) = {k:?}, Ord::cmp gives {wcmp:?}");
        ensure!(const_eq!(a, b) == weq, "const_eq!({a:?},{b:?}) wrong");
        ensure!(const_cmp!(a, b) == wcmp, "const_cmp!({a:?},{b:?}) = {:?}, expected {wcmp:?}", const_cmp!(a, b));
    }
    Ok(())
}

fn ck_misc(c: &Case) -> Result<(), String> {
    const ORDS: [Ordering; 3] = [Ordering::Less, Ordering::Equal, Ordering::Greater];
    let (a, b) = (ORDS[c.a[0]], ORDS[c.b[0]]);
    let (oa, ob) = (opt(c.some_a, a), opt(c.some_b, b));
    ensure!(eq_option_ordering(oa, ob) == (oa == ob), "eq_option_ordering({oa:?},{ob:?}) wrong");
    let k = cmp_option_ordering(oa, ob);
    ensure!(k == oa.cmp(&ob), "cmp_option_ordering({oa:?},{ob:?}) = {k:?}");
    ensure!(const_eq!(oa, ob) == (oa == ob), "const_eq!({oa:?},{ob:?}) wrong");
    ensure!(const_cmp!(oa, ob) == oa.cmp(&ob), "const_cmp!({oa:?},{ob:?}) wrong");
    if c.some_a && c.some_b {
        ensure!(eq_ordering(a, b) == (a == b), "eq_ordering({a:?},{b:?}) wrong");
        let k = cmp_ordering(a, b);
        ensure!(k == a.cmp(&b), "cmp_ordering({a:?},{b:?}) = {k:?}");
        ensure!(const_eq!(a, b) == (a == b) && const_cmp!(a, b) == a.cmp(&b), "const_eq!/const_cmp! on Ordering wrong");
        use core::marker::{PhantomData, PhantomPinned};
        let (p, q) = (PhantomData::<u8>, PhantomData::<u8>);
        ensure!(eq_phantomdata(p, q) && cmp_phantomdata(p, q) == Ordering::Equal, "phantomdata");
        ensure!(eq_phantompinned(PhantomPinned, PhantomPinned) && cmp_phantompinned(PhantomPinned, PhantomPinned) == Ordering::Equal, "phantompinned");
        ensure!(const_eq!(p, q) && const_cmp!(p, q) == Ordering::Equal, "const_eq!/const_cmp! on PhantomData");
    }
    Ok(())
}

/// order laws on konst's own results over every triple of short slices / strings
fn ck_laws(c: &Case) -> Result<(), String> {
    // c.ty selects the comparison; c.a[0] = alphabet size, c.a[1] = max length
    fn laws<T: std::fmt::Debug>(items: &[T], cmp: impl Fn(&T, &T) -> Ordering, eq: impl Fn(&T, &T) -> bool, what: &str) -> Result<(), String> {
        let n = items.len();
        let mut m = vec![Ordering::Equal; n * n];
        for i in 0..n {
            for j in 0..n {
                m[i * n + j] = cmp(&items[i], &items[j]);
                ensure!((m[i * n + j] == Ordering::Equal) == eq(&items[i], &items[j]), "{what}: cmp == Equal but eq disagrees on {:?},{:?}", items[i], items[j]);
            }
        }
        for i in 0..n {
            for j in 0..n {
                ensure!(m[i * n + j] == m[j * n + i].reverse(), "{what}: not antisymmetric on {:?},{:?}", items[i], items[j]);
                if m[i * n + j] == Ordering::Greater {
                    continue;
                }
                for k in 0..n {
                    if m[j * n + k] != Ordering::Greater {
                        ensure!(
                            m[i * n + k] != Ordering::Greater && (m[i * n + k] == Ordering::Equal) == (m[i * n + j] == Ordering::Equal && m[j * n + k] == Ordering::Equal),
                            "{what}: not transitive on {:?} <= {:?} <= {:?} (got {:?})",
                            items[i],
                            items[j],
                            items[k],
                            m[i * n + k]
                        );
                    }
                }
            }
        }
        Ok(())
    }
    let max = c.a[1];
    match c.ty.as_str() {
        "i8" => {
            let items = kvh::gen::seqs(&[i8::MIN, 0, i8::MAX], max);
            laws(&items, |a, b| cmp_slice_i8(a, b), |a, b| eq_slice_i8(a, b), "cmp_slice_i8")
        }
        "u8" => {
            let items = kvh::gen::seqs(&[0u8, 1, 255], max);
            laws(&items, |a, b| cmp_bytes(a, b), |a, b| eq_bytes(a, b), "cmp_bytes")
        }
        "char" => {
            let items = kvh::gen::seqs(&['\0', 'a', '\u{10ffff}'], max);
            laws(&items, |a, b| cmp_slice_char(a, b), |a, b| eq_slice_char(a, b), "cmp_slice_char")
        }
        "str" => {
            let items = kvh::gen::strings(&STR_ALPHA, max);
            laws(&items, |a, b| cmp_str(a, b), |a, b| eq_str(a, b), "cmp_str")
        }
        _ => {
            let idx = kvh::gen::seqs(&[0usize, 1, 2, 3], max.min(3));
            let items: Vec<Vec<&str>> = idx.iter().map(|v| v.iter().map(|&i| ELEMS[i]).collect()).collect();
            laws(&items, |a, b| cmp_slice_str(a, b), |a, b| eq_slice_str(a, b), "cmp_slice_str")
        }
    }
}

pub fn run_case(c: &Case) -> Result<(), String> {
    match c.form.as_str() {
        "scalar" | "slice" => {
            let f = SCALARS.iter().find(|s| s.0 == c.ty).ok_or("unknown type")?.2;
            f(c)
        }
        "nonzero" => (NONZEROS.iter().find(|s| s.0 == c.ty).ok_or("unknown type")?.1)(c),
        "range" => (RANGES.iter().find(|s| s.0 == c.ty).ok_or("unknown type")?.1)(c),
        "str" => ck_str(c),
        "strs" => ck_strs(c),
        "bytess" => ck_bytess(c),
        "misc" => ck_misc(c),
        "laws" => ck_laws(c),
        _ => Err("unknown form".into()),
    }
}

/// first difference favours the shorter operand (where shortlex and lexicographic order disagree)
fn shortlex_differs(a: &[usize], b: &[usize]) -> bool {
    a.len() != b.len() && a.cmp(b) != a.len().cmp(&b.len()).then(a.cmp(b))
}

fn eval(ctx: &mut Ctx, c: Case) {
    ctx.case("cmp", &c, |ctx| {
        let mix = c.some_a != c.some_b;
        if mix {
            ctx.label("option_mix");
        }
        let sl = matches!(c.form.as_str(), "slice" | "str" | "strs" | "bytess");
        if sl && shortlex_differs(&c.a, &c.b) {
            ctx.label("shorter_operand_is_greater");
            ctx.nontrivial(&format!("{}/{}", c.form, c.ty), &c, || json!(c));
        } else if mix || matches!(c.form.as_str(), "scalar" | "nonzero" | "range" | "misc" | "laws") {
            ctx.nontrivial(&format!("{}/{}", c.form, c.ty), &c, || json!(c));
        }
        match run_case(&c) {
            Err(m) if m.starts_with("EXHAUSTED_RANGE") => {
                if ctx.known_hit("exhausted-range-inclusive-equality", || json!({"case": c, "message": m})) {
                    Ok(())
                } else {
                    Err(m)
                }
            }
            r => r,
        }
    });
}

fn options(ctx: &mut Ctx, base: Case) {
    for (sa, sb) in [(true, true), (true, false), (false, true), (false, false)] {
        let mut c = base.clone();
        c.some_a = sa;
        c.some_b = sb;
        eval(ctx, c);
    }
}

fn explore(ctx: &mut Ctx) {
    let case = |ty: &str, form: &str, a: Vec<usize>, b: Vec<usize>| Case { ty: ty.into(), form: form.into(), a, b, some_a: true, some_b: true };
    let maxlen = ctx.by_tier(3, 4);
    for (name, n, _) in SCALARS {
        for a in 0..n {
            for b in 0..n {
                options(ctx, case(name, "scalar", vec![a], vec![b]));
            }
        }
        // slices over three of the values: first, a middle one, last
        let pick = [0, n / 2, n - 1];
        let pick: Vec<usize> = if n == 2 { vec![0, 1] } else { pick.to_vec() };
        let seqs = kvh::gen::seqs(&pick, maxlen);
        for a in &seqs {
            for b in &seqs {
                options(ctx, case(name, "slice", a.clone(), b.clone()));
            }
        }
        // the last two table entries are "half-word partners" (equal upper half, lower halves differing in their top
        // bit) for the 16..128-bit integer types: slices over them and the first value
        if n >= 8 {
            let seqs = kvh::gen::seqs(&[0, n - 2, n - 1], 2);
            for a in &seqs {
                for b in &seqs {
                    options(ctx, case(name, "slice", a.clone(), b.clone()));
                }
            }
        }
        if ctx.too_many() {
            return;
        }
    }
    ctx.exhaustive_part(&format!("14 scalar types: all pairs of 5-7 boundary values x 4 Option combinations; all pairs of slices of length <= {maxlen} over 3 of those values x 4 Option combinations"));
    for (name, _) in NONZEROS {
        for a in 0..5 {
            for b in 0..5 {
                options(ctx, case(name, "nonzero", vec![a], vec![b]));
            }
        }
    }
    for (name, _, n) in RANGES {
        for a in 0..n * n {
            for b in 0..n * n {
                // all four exhaustion combinations for the boundary values, fresh ranges for the congruent ones
                if a < 9 && b < 9 && n >= 3 {
                    options(ctx, case(name, "range", vec![a / 3, a % 3], vec![b / 3, b % 3]));
                }
                eval(ctx, case(name, "range", vec![a / n, a % n], vec![b / n, b % n]));
            }
        }
    }
    for a in 0..3 {
        for b in 0..3 {
            options(ctx, case("Ordering", "misc", vec![a], vec![b]));
        }
    }
    ctx.exhaustive_part("12 NonZero types (5 values, all pairs x Option combos), Range/RangeInclusive of 7 types (all 9x9 bound pairs), Ordering/PhantomData/PhantomPinned");
    let strs = kvh::gen::seqs(&[0usize, 1, 2, 3], ctx.by_tier(3, 4));
    for a in &strs {
        for b in &strs {
            options(ctx, case("str", "str", a.clone(), b.clone()));
        }
    }
    let el = kvh::gen::seqs(&[0usize, 1, 2, 3, 4], 3);
    for a in &el {
        for b in &el {
            options(ctx, case("&[&str]", "strs", a.clone(), b.clone()));
            options(ctx, case("&[&[u8]]", "bytess", a.clone(), b.clone()));
        }
        if ctx.too_many() {
            return;
        }
    }
    ctx.exhaustive_part("strings of <= 3-4 chars over {a,b,é,NUL} (all pairs; also as bytes); &[&str] and &[&[u8]] of <= 3 elements over {\"\",a,ab,b,a+NUL} (all pairs) x Option combos");
    for ty in ["i8", "u8", "char", "str", "strs"] {
        eval(ctx, case(ty, "laws", vec![3, 3], vec![]));
    }
    ctx.exhaustive_part("antisymmetry / transitivity / (cmp==Equal <=> eq) over all triples of the 40 short sequences for cmp_slice_i8, cmp_bytes, cmp_slice_char, cmp_str, cmp_slice_str");
    // long slices (beyond the exhaustive bound): equal except at exactly one position j (or nowhere), every
    // length 1..=72 and every j, for every scalar type, str and &[&str]; index lists use value 0 / 1
    for len in 1..=72usize {
        for j in 0..=len {
            let a: Vec<usize> = vec![0; len];
            let mut b = a.clone();
            if j < len {
                b[j] = 1;
            }
            for (name, _, _) in SCALARS {
                eval(ctx, case(name, "slice", a.clone(), b.clone()));
                eval(ctx, case(name, "slice", b.clone(), a.clone()));
            }
            eval(ctx, case("str", "str", a.clone(), b.clone()));
            eval(ctx, case("str", "str", b.clone(), a.clone()));
            if len <= 40 {
                eval(ctx, case("&[&str]", "strs", b.clone(), a.clone()));
                eval(ctx, case("&[&[u8]]", "bytess", a.clone(), b.clone()));
            }
        }
        if ctx.too_many() {
            return;
        }
    }
    ctx.exhaustive_part("long slices: lengths 1..=72 x a single differing position at every index (or none), both argument orders, 14 scalar types + str (+ &[&str], &[&[u8]] up to 40)");
    // slices / strings longer than 2^16, equal except at one position around 2^8, 2^15, 2^16 or the end (or nowhere),
    // and one a prefix of the other cut at such a position
    {
        let total = 70_000usize;
        for j in [0usize, 255, 256, 32_767, 32_768, 65_535, 65_536, 65_537, total - 1, total] {
            let a: Vec<usize> = vec![0; total];
            let mut b = a.clone();
            if j < total {
                b[j] = 1;
            }
            for name in ["u8", "u16", "i64", "char", "u128"] {
                eval(ctx, case(name, "slice", a.clone(), b.clone()));
                eval(ctx, case(name, "slice", b.clone(), a.clone()));
            }
            eval(ctx, case("str", "str", a.clone(), b.clone()));
            eval(ctx, case("str", "str", b.clone(), a.clone()));
            if j > 0 && j < total {
                let p: Vec<usize> = vec![0; j];
                eval(ctx, case("u8", "slice", p.clone(), a.clone()));
                eval(ctx, case("str", "str", a.clone(), p.clone()));
            }
        }
        ctx.exhaustive_part("slices / strings of 70000 elements: a single difference at positions around 2^8, 2^15, 2^16 and the end, and prefixes cut there; 5 element types + str");
    }
    // many differences: equal-length slices / strings that differ at every position, or at every position of a long
    // prefix / suffix (counters of mismatches narrower than usize wrap at 2^8, 2^16)
    for len in [255usize, 256, 257, 511, 512, 513, 768, 65_535, 65_536, 65_537] {
        let a: Vec<usize> = vec![0; len];
        let b: Vec<usize> = vec![1; len];
        let mut half = a.clone();
        for x in half.iter_mut().take(256.min(len)) {
            *x = 1;
        }
        for name in ["u8", "u16", "i64", "char", "bool", "u128"] {
            for (x, y) in [(&a, &b), (&b, &a), (&a, &half), (&half, &b)] {
                eval(ctx, case(name, "slice", x.clone(), y.clone()));
            }
        }
        eval(ctx, case("str", "str", a.clone(), b.clone()));
        eval(ctx, case("str", "str", a.clone(), half.clone()));
    }
    ctx.exhaustive_part("equal-length slices / strings of 255..=65537 elements differing at every position, or at exactly the first 256 positions; 6 element types + str");
    // random: longer slices over a 2-3 value alphabet
    let n = ctx.by_tier(40_000, 1_000_000);
    let strat = (0usize..14, proptest::collection::vec(0usize..3, 0..12), proptest::collection::vec(0usize..3, 0..12), any::<bool>(), any::<bool>(), 0usize..4);
    ctx.prop("cmp", n, strat, |ctx, v| {
        let c = fold_case(v);
        ctx.label("random");
        if shortlex_differs(&c.a, &c.b) {
            ctx.nontrivial("random", &c, || json!(c));
        }
        run_case(&c)
    });
}

pub fn fold_case((t, a, b, sa, sb, form): &(usize, Vec<usize>, Vec<usize>, bool, bool, usize)) -> Case {
    let (name, n, _) = SCALARS[*t];
    let m = |v: &Vec<usize>| -> Vec<usize> { v.iter().map(|&i| [0, n / 2, n - 1][i].min(n - 1)).collect() };
    match form {
        0 | 1 => Case { ty: name.into(), form: "slice".into(), a: m(a), b: m(b), some_a: *sa, some_b: *sb },
        2 => Case { ty: "str".into(), form: "str".into(), a: a.clone(), b: b.clone(), some_a: *sa, some_b: *sb },
        _ => Case { ty: "&[&str]".into(), form: "strs".into(), a: a.clone(), b: b.clone(), some_a: *sa, some_b: *sb },
    }
}

fn main() {
    kvh::on_thread(real_main);
}

fn real_main() {
    let args = kvh::parse_args("C16", "c16");
    let mut ctx = Ctx::new(args.clone(), RULE);
    if let Some(p) = &args.replay {
        let (_check, case) = kvh::load_replay(p);
        let c: Case = match serde_json::from_value::<Case>(case.clone()) {
            Ok(c) => c,
            Err(_) => fold_case(&serde_json::from_value(case).expect("replay case")),
        };
        println!("replaying {:?}", c);
        ctx.case("cmp", &c, |_| run_case(&c));
    } else {
        explore(&mut ctx);
    }
    std::process::exit(ctx.finish());
}

//! C07 — char iteration and char<->UTF-8/u32 conversions agree with std.
use konst::{chr, string as kstr};
use kvh::{gen, ostep, Ctx};
use proptest::prelude::*;
use serde::{Deserialize, Serialize};
use serde_json::json;

include!("../kiter.rs");
impl_kiter!(['a] kstr::Chars<'a>, char);
impl_kiter!(['a] kstr::RChars<'a>, char);
impl_kiter!(['a] kstr::CharIndices<'a>, (usize, char));
impl_kiter!(['a] kstr::RCharIndices<'a>, (usize, char));

const RULE: &str = "conversions: every char through chr::encode_utf8 vs char::encode_utf8, every u32 in 0..0x120000 (+ boundary values) through chr::from_u32 vs char::from_u32; iteration: (string, history of front/back steps run past exhaustion) on chars/char_indices and their reversed types vs str::chars/char_indices (+next_back), as_str() compared by address after every step; non-trivial = history mixes both ends over a string with >=2 distinct UTF-8 lengths (iteration), or a scalar within 2 of an encoding-length/surrogate boundary (conversions); distinct by (string,history) / scalar";

#[derive(Serialize, Deserialize, Debug, Clone, Hash)]
enum Case {
    Encode(u32),
    FromU32(u32),
    /// history bit i set = step i from the back; `steps` steps are taken
    Iter { s: String, hist: u32, steps: u32 },
}

macro_rules! ensure {
    ($c:expr, $($fmt:tt)*) => { if !$c { return Err(format!($($fmt)*)); } };
}

fn same(a: &str, b: &str) -> bool {
    a.len() == b.len() && (a.is_empty() || a.as_ptr() == b.as_ptr())
}

fn check_iter(s: &str, hist: u32, steps: u32) -> Result<(), String> {
    // forward types
    let mut kc = kstr::chars(s);
    let mut oc = s.chars();
    let mut ki = kstr::char_indices(s);
    let mut oi = s.char_indices();
    // reversed types, obtained through rev(): next <-> next_back swapped
    let mut krc = kstr::chars(s).rev();
    let mut kri = kstr::char_indices(s).rev();
    // rev().rev() must behave like the original
    let mut krr = kstr::chars(s).rev().rev();
    for i in 0..steps {
        let back = (hist >> i) & 1 == 1;
        let (k, o) = (kc.step(back), ostep(&mut oc, back));
        ensure!(k == o, "chars({s:?}) step {i} back={back}: konst {k:?} std {o:?}");
        ensure!(same(kc.as_str(), oc.as_str()), "chars({s:?}).as_str() after step {i}: konst {:?} std {:?}", kc.as_str(), oc.as_str());
        let (k, o2) = (ki.step(back), ostep(&mut oi, back));
        ensure!(k == o2, "char_indices({s:?}) step {i} back={back}: konst {k:?} std {o2:?}");
        ensure!(same(ki.as_str(), oi.as_str()), "char_indices({s:?}).as_str() after step {i}: konst {:?} std {:?}", ki.as_str(), oi.as_str());
        let k = krc.step(!back);
        ensure!(k == o, "chars({s:?}).rev() step {i} (std back={back}): konst {k:?} std {o:?}");
        let k = kri.step(!back);
        ensure!(k == o2, "char_indices({s:?}).rev() step {i} (std back={back}): konst {k:?} std {o2:?}");
        let k = krr.step(back);
        ensure!(k == o, "chars({s:?}).rev().rev() step {i} back={back}: konst {k:?} std {o:?}");
    }
    // RChars / RCharIndices .rev() gives back the forward type with the same remaining string
    ensure!(same(krc.copy().rev().as_str(), oc.as_str()), "chars.rev()...rev().as_str() differs after history");
    ensure!(same(kri.copy().rev().as_str(), oi.as_str()), "char_indices.rev()...rev().as_str() differs after history");
    Ok(())
}

fn run_case(c: &Case) -> Result<(), String> {
    match c {
        Case::Encode(n) => {
            let Some(ch) = char::from_u32(*n) else { return Ok(()) };
            let mut buf = [0u8; 4];
            let o = ch.encode_utf8(&mut buf);
            let k = chr::encode_utf8(ch);
            ensure!(k.as_bytes() == o.as_bytes(), "encode_utf8({:#x}): konst {:?} std {:?}", n, k.as_bytes(), o.as_bytes());
            ensure!(k.as_str() == &*o, "encode_utf8({:#x}).as_str(): konst {:?} std {:?}", n, k.as_str(), o);
            Ok(())
        }
        Case::FromU32(n) => {
            // compared as u32: an invalid char must not reach a formatter
            let (k, o) = (chr::from_u32(*n).map(|c| c as u32), char::from_u32(*n).map(|c| c as u32));
            ensure!(k == o, "from_u32({:#x}): konst {:x?} std {:x?} (scalar values)", n, k, o);
            Ok(())
        }
        Case::Iter { s, hist, steps } => check_iter(s, *hist, *steps),
    }
}

const EDGES: [u32; 10] = [0, 0x7f, 0x80, 0x7ff, 0x800, 0xd7ff, 0xe000, 0xffff, 0x10000, 0x10ffff];
fn near_edge(n: u32) -> bool {
    EDGES.iter().any(|e| n.abs_diff(*e) <= 2) || n >= 0x10fffe
}

fn eval(ctx: &mut Ctx, c: Case) {
    ctx.case("chars", &c, |ctx| {
        match &c {
            Case::Encode(n) | Case::FromU32(n) => {
                if near_edge(*n) {
                    ctx.nontrivial("scalar_edge", &c, || json!(c));
                }
            }
            Case::Iter { s, hist, steps } => {
                let mask = if *steps >= 32 { u32::MAX } else { (1u32 << steps) - 1 };
                let h = hist & mask;
                let mixed = h != 0 && h != mask;
                let lens: std::collections::BTreeSet<usize> = s.chars().map(|c| c.len_utf8()).collect();
                if mixed {
                    ctx.label("history_mixed_ends");
                }
                if mixed && lens.len() >= 2 {
                    ctx.nontrivial("iter_mixed", &c, || json!(c));
                }
            }
        }
        run_case(&c)
    });
}

fn explore(ctx: &mut Ctx) {
    // conversions: complete
    for n in 0..0x120000u32 {
        eval(ctx, Case::FromU32(n));
        if n < 0x110000 {
            eval(ctx, Case::Encode(n));
        }
        if ctx.too_many() {
            return;
        }
    }
    for n in [u32::MAX, u32::MAX - 1, 0x7fff_ffff, 0x8000_0000, 0x8000_d7ff, 0x0100_0041, 0xffff_0041, 0x0011_0000, 0x0020_0000, 0xdfff_ffff] {
        eval(ctx, Case::FromU32(n));
    }
    ctx.exhaustive_part("every u32 in 0..0x120000 (+10 large values) for from_u32; every char for encode_utf8");
    // high halves: a check done on truncated pieces of n (plane as u8, low half as u16) is only wrong above 2^24 / 2^16
    for hi in 0x12..=0xffffu32 {
        for lo in [0u32, 0x41, 0xd7ff, 0xd800, 0xdfff, 0xe000, 0xffff] {
            eval(ctx, Case::FromU32(hi << 16 | lo));
        }
    }
    ctx.exhaustive_part("from_u32: every upper half 0x12..=0xffff x 7 lower halves (0, 'A', surrogate gap edges, 0xffff)");
    if ctx.by_tier(false, true) {
        // thorough: all 2^32 values, compared outside the case machinery in 16 threads; mismatches are replayed as cases
        let bad: Vec<u32> = std::thread::scope(|sc| {
            let hs: Vec<_> = (0..16u32)
                .map(|t| {
                    sc.spawn(move || {
                        let mut bad = Vec::new();
                        let (lo, hi) = ((t as u64) << 28, ((t as u64) + 1) << 28);
                        for n in lo..hi {
                            let n = n as u32;
                            let k = std::panic::catch_unwind(|| chr::from_u32(n).map(|c| c as u32));
                            if k.ok() != Some(char::from_u32(n).map(|c| c as u32)) && bad.len() < 4 {
                                bad.push(n);
                            }
                        }
                        bad
                    })
                })
                .collect();
            hs.into_iter().flat_map(|h| h.join().unwrap_or_default()).collect()
        });
        for n in bad {
            eval(ctx, Case::FromU32(n));
        }
        ctx.exhaustive_part("from_u32: all 2^32 u32 values (raw comparison with char::from_u32 in 16 threads; mismatches re-run as cases)");
    }
    // iteration: all strings <= L chars over one char per UTF-8 length x all histories
    let l = ctx.by_tier(5, 6);
    for s in gen::strings(&gen::TEXT4, l) {
        let k = s.chars().count() as u32 + 2;
        for hist in 0..(1u32 << k) {
            eval(ctx, Case::Iter { s: s.clone(), hist, steps: k });
        }
        if ctx.too_many() {
            return;
        }
    }
    ctx.exhaustive_part(&format!("all strings of 0..={l} chars over {{a,é,漢,😀}} x all 2^(chars+2) front/back histories"));
    // boundary scalars
    let bs: Vec<String> = gen::BOUNDARY_CHARS.iter().map(|c| c.to_string()).collect();
    let bsr: Vec<&str> = bs.iter().map(|s| s.as_str()).collect();
    for s in gen::strings(&bsr, 3) {
        let k = s.chars().count() as u32 + 1;
        for hist in 0..(1u32 << k) {
            eval(ctx, Case::Iter { s: s.clone(), hist, steps: k });
        }
    }
    ctx.exhaustive_part("all strings of 0..=3 chars over 9 boundary scalars x all histories");
    // lead-byte sweep
    for s in gen::lead_byte_strings() {
        let k = s.chars().count() as u32 + 1;
        for hist in 0..(1u32 << k) {
            eval(ctx, Case::Iter { s: s.clone(), hist, steps: k });
        }
    }
    ctx.exhaustive_part("lead-byte sweep: first / last scalar of each of the 51 UTF-8 lead bytes x 8 short contexts x all front/back histories");
    for s in gen::special_char_strings() {
        let k = s.chars().count() as u32 + 1;
        for hist in 0..(1u32 << k) {
            eval(ctx, Case::Iter { s: s.clone(), hist, steps: k });
        }
    }
    ctx.exhaustive_part("16 special chars (BOM, U+FFFD, Unicode white space ...) in 6 contexts x all front/back histories");
    // long strings: 33 and 64 chars, histories = all-front, all-back, alternating, 2:1, and 200 seeded ones (first 32 steps)
    let pool = ['a', 'é', '漢', '😀', '\u{7ff}', '\u{800}', '\u{fff}', '\u{ffff}', '\u{10000}', 'z'];
    let mut rng = kvh::Rng::new(ctx.args.seed, "c07-long");
    for n in [33usize, 64] {
        for k in [1usize, 3, 7] {
            let s: String = (0..n).map(|i| pool[(i * k + i / 5) % pool.len()]).collect();
            for hist in [0u32, u32::MAX, 0xAAAA_AAAA, 0x5555_5555, 0x2492_4924, 0xFFFF_0000, 0x0000_FFFF] {
                eval(ctx, Case::Iter { s: s.clone(), hist, steps: 32 });
            }
            for _ in 0..200 {
                eval(ctx, Case::Iter { s: s.clone(), hist: rng.next() as u32, steps: 32 });
            }
        }
    }
    ctx.exhaustive_part("6 long strings (33 / 64 chars, all UTF-8 widths) x 7 structured + 200 seeded histories of 32 steps");
    // random longer strings with arbitrary chars
    let n = ctx.by_tier(30_000, 1_000_000);
    let strat = (proptest::collection::vec(any::<char>(), 0..20), any::<u32>());
    ctx.prop("chars", n, strat, |ctx, (chars, hist)| {
        let s: String = chars.iter().collect();
        let steps = (chars.len() as u32 + 2).min(32);
        ctx.label("random");
        let c = Case::Iter { s, hist: *hist, steps };
        ctx.nontrivial("random_iter", &c, || json!(c));
        run_case(&c)
    });
}

fn main() {
    kvh::on_thread(real_main);
}

fn real_main() {
    let args = kvh::parse_args("C07", "c07");
    let mut ctx = Ctx::new(args.clone(), RULE);
    if let Some(p) = &args.replay {
        let (_check, case) = kvh::load_replay(p);
        let c: Case = match serde_json::from_value::<Case>(case.clone()) {
            Ok(c) => c,
            Err(_) => {
                let (chars, hist): (Vec<char>, u32) = serde_json::from_value(case).expect("replay case");
                let steps = (chars.len() as u32 + 2).min(32);
                Case::Iter { s: chars.iter().collect(), hist, steps }
            }
        };
        println!("replaying {:?}", c);
        ctx.case("chars", &c, |_| run_case(&c));
    } else {
        explore(&mut ctx);
    }
    std::process::exit(ctx.finish());
}

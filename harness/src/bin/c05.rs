//! C05 — prefix/suffix tests, stripping and trimming agree with std.
use konst::{slice as ks, string as kstr};
use kvh::{gen, Ctx};
use proptest::prelude::*;
use serde::{Deserialize, Serialize};
use serde_json::json;

const RULE: &str = "cases = (input bytes, pattern bytes); oracle = <[u8]>::starts_with/ends_with/strip_prefix/strip_suffix/trim_ascii*, str::trim_start_matches/trim_end_matches (and a loop-strip reference for bytes), str::trim_matches for char patterns; two-sided trim_matches with a multi-char pattern must equal end(start(x)) or start(end(x)); all applicable pattern kinds ([u8],[u8;N],str,char); results compared by address+length; non-trivial = the pattern repeats >=1 time at an end and a partial repetition follows, or the pattern is longer than what remains after >=1 repetition, or whitespace next to a non-whitespace control byte; distinct by (input,pattern)";

#[derive(Serialize, Deserialize, Debug, Clone, Hash)]
pub struct Case {
    input: Vec<u8>,
    pat: Vec<u8>,
}

macro_rules! ensure {
    ($c:expr, $($fmt:tt)*) => { if !$c { return Err(format!($($fmt)*)); } };
}

fn same(a: &[u8], b: &[u8]) -> bool {
    a.len() == b.len() && (a.is_empty() || a.as_ptr() == b.as_ptr())
}
fn same_opt(a: Option<&[u8]>, b: Option<&[u8]>) -> bool {
    match (a, b) {
        (None, None) => true,
        (Some(a), Some(b)) => same(a, b),
        _ => false,
    }
}
fn sb(x: Option<&str>) -> Option<&[u8]> {
    x.map(|s| s.as_bytes())
}
fn show(b: &[u8]) -> String {
    match std::str::from_utf8(b) {
        Ok(s) => format!("{s:?}"),
        Err(_) => format!("{b:?}"),
    }
}
fn d(x: &[u8], base: &[u8]) -> String {
    if x.is_empty() {
        return "[]".into();
    }
    let off = (x.as_ptr() as usize).wrapping_sub(base.as_ptr() as usize);
    format!("[{}..{}]", off, off.wrapping_add(x.len()))
}
fn dopt(x: Option<&[u8]>, base: &[u8]) -> String {
    x.map(|x| format!("Some({})", d(x, base))).unwrap_or("None".into())
}

fn ref_trim_start<'a>(mut h: &'a [u8], n: &[u8]) -> &'a [u8] {
    if n.is_empty() {
        return h;
    }
    while h.starts_with(n) {
        h = &h[n.len()..];
    }
    h
}
fn ref_trim_end<'a>(mut h: &'a [u8], n: &[u8]) -> &'a [u8] {
    if n.is_empty() {
        return h;
    }
    while h.ends_with(n) {
        h = &h[..h.len() - n.len()];
    }
    h
}

struct Expect<'a> {
    starts: bool,
    ends: bool,
    strip_p: Option<&'a [u8]>,
    strip_s: Option<&'a [u8]>,
    ts: &'a [u8],
    te: &'a [u8],
    both_a: &'a [u8],
    both_b: &'a [u8],
}

macro_rules! bytes_kind {
    ($kind:expr, $h:expr, $n:expr, $pat:expr, $e:expr) => {{
        let (h, n, e): (&[u8], &[u8], &Expect) = ($h, $n, $e);
        let k = ks::bytes_start_with(h, $pat);
        ensure!(k == e.starts, "bytes_start_with[{}]({}, {}): konst {k}", $kind, show(h), show(n));
        let k = ks::bytes_end_with(h, $pat);
        ensure!(k == e.ends, "bytes_end_with[{}]({}, {}): konst {k}", $kind, show(h), show(n));
        let k = ks::bytes_strip_prefix(h, $pat);
        ensure!(same_opt(k, e.strip_p), "bytes_strip_prefix[{}]({}, {}): konst {} std {}", $kind, show(h), show(n), dopt(k, h), dopt(e.strip_p, h));
        let k = ks::bytes_strip_suffix(h, $pat);
        ensure!(same_opt(k, e.strip_s), "bytes_strip_suffix[{}]({}, {}): konst {} std {}", $kind, show(h), show(n), dopt(k, h), dopt(e.strip_s, h));
        let k = ks::bytes_trim_start_matches(h, $pat);
        ensure!(same(k, e.ts), "bytes_trim_start_matches[{}]({}, {}): konst {} expected {}", $kind, show(h), show(n), d(k, h), d(e.ts, h));
        let k = ks::bytes_trim_end_matches(h, $pat);
        ensure!(same(k, e.te), "bytes_trim_end_matches[{}]({}, {}): konst {} expected {}", $kind, show(h), show(n), d(k, h), d(e.te, h));
        let k = ks::bytes_trim_matches(h, $pat);
        ensure!(same(k, e.both_a) || same(k, e.both_b), "bytes_trim_matches[{}]({}, {}): konst {} expected {} (or {})", $kind, show(h), show(n), d(k, h), d(e.both_a, h), d(e.both_b, h));
    }};
}

macro_rules! str_kind {
    ($kind:literal, $h:expr, $n:expr, $pat:expr, $e:expr) => {{
        let (h, n, e): (&str, &str, &Expect) = ($h, $n, $e);
        let hb = h.as_bytes();
        let k = kstr::starts_with(h, $pat);
        ensure!(k == h.starts_with($pat), "string::starts_with[{}]({h:?}, {n:?}): konst {k}", $kind);
        let k = kstr::ends_with(h, $pat);
        ensure!(k == h.ends_with($pat), "string::ends_with[{}]({h:?}, {n:?}): konst {k}", $kind);
        let (k, o) = (sb(kstr::strip_prefix(h, $pat)), sb(h.strip_prefix($pat)));
        ensure!(same_opt(k, o), "string::strip_prefix[{}]({h:?}, {n:?}): konst {} std {}", $kind, dopt(k, hb), dopt(o, hb));
        let (k, o) = (sb(kstr::strip_suffix(h, $pat)), sb(h.strip_suffix($pat)));
        ensure!(same_opt(k, o), "string::strip_suffix[{}]({h:?}, {n:?}): konst {} std {}", $kind, dopt(k, hb), dopt(o, hb));
        let (k, o) = (kstr::trim_start_matches(h, $pat).as_bytes(), h.trim_start_matches($pat).as_bytes());
        ensure!(same(o, e.ts), "harness: reference trim_start disagrees with std on ({h:?},{n:?})");
        ensure!(same(k, o), "string::trim_start_matches[{}]({h:?}, {n:?}): konst {} std {}", $kind, d(k, hb), d(o, hb));
        let (k, o) = (kstr::trim_end_matches(h, $pat).as_bytes(), h.trim_end_matches($pat).as_bytes());
        ensure!(same(o, e.te), "harness: reference trim_end disagrees with std on ({h:?},{n:?})");
        ensure!(same(k, o), "string::trim_end_matches[{}]({h:?}, {n:?}): konst {} std {}", $kind, d(k, hb), d(o, hb));
        let k = kstr::trim_matches(h, $pat).as_bytes();
        ensure!(same(k, e.both_a) || same(k, e.both_b), "string::trim_matches[{}]({h:?}, {n:?}): konst {} expected {} (or {})", $kind, d(k, hb), d(e.both_a, hb), d(e.both_b, hb));
    }};
}

macro_rules! array_kinds {
    ($h:expr, $n:expr, $e:expr; $($N:literal)*) => {
        match $n.len() {
            $($N => {
                let a: [u8; $N] = $n.try_into().unwrap();
                bytes_kind!(concat!("[u8;", stringify!($N), "]"), $h, $n, &a, $e)
            })*
            _ => {}
        }
    };
}

pub fn run_case(c: &Case) -> Result<(), String> {
    let (h, n): (&[u8], &[u8]) = (&c.input, &c.pat);
    let (ts, te) = (ref_trim_start(h, n), ref_trim_end(h, n));
    let e = Expect {
        starts: h.starts_with(n),
        ends: h.ends_with(n),
        strip_p: h.strip_prefix(n),
        strip_s: h.strip_suffix(n),
        ts,
        te,
        both_a: ref_trim_end(ts, n),
        both_b: ref_trim_start(te, n),
    };
    // whitespace trimming (pattern-independent)
    let (k, o) = (ks::bytes_trim(h), h.trim_ascii());
    ensure!(same(k, o), "bytes_trim({}): konst {} std trim_ascii {}", show(h), d(k, h), d(o, h));
    let (k, o) = (ks::bytes_trim_start(h), h.trim_ascii_start());
    ensure!(same(k, o), "bytes_trim_start({}): konst {} std trim_ascii_start {}", show(h), d(k, h), d(o, h));
    let (k, o) = (ks::bytes_trim_end(h), h.trim_ascii_end());
    ensure!(same(k, o), "bytes_trim_end({}): konst {} std trim_ascii_end {}", show(h), d(k, h), d(o, h));

    bytes_kind!("[u8]", h, n, n, &e);
    // the [u8; N] pattern kind for every N up to 48 (N is a const parameter of the searched function)
    array_kinds!(h, n, &e; 0 1 2 3 4 5 6 7 8 9 10 11 12 13 14 15 16 17 18 19 20 21 22 23 24 25 26 27 28 29 30 31 32 33 34 35 36 37 38 39 40 41 42 43 44 45 46 47 48);
    if let Ok(hs) = std::str::from_utf8(h) {
        let (k, o) = (kstr::trim(hs).as_bytes(), hs.trim_ascii().as_bytes());
        ensure!(same(k, o), "string::trim({hs:?}): konst {} std trim_ascii {}", d(k, h), d(o, h));
        let (k, o) = (kstr::trim_start(hs).as_bytes(), hs.trim_ascii_start().as_bytes());
        ensure!(same(k, o), "string::trim_start({hs:?}): konst {} std {}", d(k, h), d(o, h));
        let (k, o) = (kstr::trim_end(hs).as_bytes(), hs.trim_ascii_end().as_bytes());
        ensure!(same(k, o), "string::trim_end({hs:?}): konst {} std {}", d(k, h), d(o, h));
    }
    if let Ok(ns) = std::str::from_utf8(n) {
        bytes_kind!("str", h, n, ns, &e);
        let mut cs = ns.chars();
        let one_char = match (cs.next(), cs.next()) {
            (Some(ch), None) => Some(ch),
            _ => None,
        };
        if let Some(ch) = one_char {
            bytes_kind!("char", h, n, &ch, &e);
        }
        if let Ok(hs) = std::str::from_utf8(h) {
            str_kind!("&str", hs, ns, ns, &e);
            if let Some(ch) = one_char {
                str_kind!("char", hs, ns, ch, &e);
                let (k, o) = (kstr::trim_matches(hs, ch).as_bytes(), hs.trim_matches(ch).as_bytes());
                ensure!(same(k, o), "string::trim_matches[char]({hs:?}, {ch:?}): konst {} std {}", d(k, h), d(o, h));
            }
        }
    }
    Ok(())
}

fn is_ws(b: u8) -> bool {
    b.is_ascii_whitespace()
}

fn classify(ctx: &mut Ctx, c: &Case) {
    let (h, n): (&[u8], &[u8]) = (&c.input, &c.pat);
    let mut nt = false;
    if n.is_empty() {
        ctx.label("pattern_empty");
    } else {
        if n.len() > h.len() {
            ctx.label("pattern_longer_than_input");
        }
        let ts = ref_trim_start(h, n);
        let te = ref_trim_end(h, n);
        let reps_s = (h.len() - ts.len()) / n.len();
        let reps_e = (h.len() - te.len()) / n.len();
        // partial trailing repetition: remainder starts with a proper non-empty prefix of n
        let partial_s = reps_s >= 1 && (1..n.len()).any(|k| ts.len() >= k && ts[..k] == n[..k]);
        let partial_e = reps_e >= 1 && (1..n.len()).any(|k| te.len() >= k && te[te.len() - k..] == n[n.len() - k..]);
        let short_s = reps_s >= 1 && ts.len() < n.len();
        let short_e = reps_e >= 1 && te.len() < n.len();
        if partial_s || partial_e {
            ctx.label("partial_repetition_after_full");
            nt = true;
        }
        if short_s || short_e {
            ctx.label("remainder_shorter_than_pattern");
            nt = true;
        }
        if reps_s >= 2 || reps_e >= 2 {
            ctx.label("repeats>=2");
        }
        if gen::has_border(n) && (reps_s >= 1 || reps_e >= 1) {
            ctx.label("self_overlapping_pattern_trimmed");
            nt = true;
        }
    }
    let ctrl_next_ws = h.windows(2).any(|w| {
        (is_ws(w[0]) && w[1] < 0x20 && !is_ws(w[1])) || (is_ws(w[1]) && w[0] < 0x20 && !is_ws(w[0]))
    }) || h.first().map_or(false, |b| *b < 0x21) || h.last().map_or(false, |b| *b < 0x21);
    if ctrl_next_ws {
        ctx.label("whitespace_or_control_at_edge");
        nt = true;
    }
    if nt {
        ctx.nontrivial(if h.is_ascii() { "ascii" } else { "non_ascii" }, c, || json!({"input": show(h), "pattern": show(n)}));
    }
}

fn eval(ctx: &mut Ctx, input: &[u8], pat: &[u8]) {
    let c = Case { input: input.to_vec(), pat: pat.to_vec() };
    ctx.case("strip_trim", &c, |ctx| {
        classify(ctx, &c);
        run_case(&c)
    });
}

/// long inputs: the case is recorded as "in flight" while it runs (a recursion as deep as the input would kill the process)
fn eval_deep(ctx: &mut Ctx, hay: &[u8], needle: &[u8]) {
    ctx.inflight("strip_trim", &Case { input: hay.to_vec(), pat: needle.to_vec() });
    eval(ctx, hay, needle);
    ctx.landed();
}

fn product(ctx: &mut Ctx, hays: &[Vec<u8>], needles: &[Vec<u8>]) {
    for h in hays {
        for n in needles {
            eval(ctx, h, n);
        }
        if ctx.too_many() {
            return;
        }
    }
}

/// every ASCII control / white-space class + neighbours
const CLASS_ALPHABET: [u8; 14] = [0x00, 0x08, b'\t', b'\n', 0x0b, 0x0c, b'\r', 0x0e, 0x1f, b' ', b'a', 0x7f, 0x85, 0xa0];

fn explore(ctx: &mut Ctx) {
    let q = ctx.quick();
    let (hl, nl) = if q { (8, 3) } else { (11, 5) };
    product(ctx, &gen::seqs(b"ab", hl), &gen::seqs(b"ab", nl));
    ctx.exhaustive_part(&format!("inputs over {{a,b}} len<={hl} x patterns len<={nl}"));
    let hl = if q { 3 } else { 4 };
    let cls = gen::seqs(&CLASS_ALPHABET, hl);
    let pats: Vec<Vec<u8>> = vec![vec![], vec![b' '], vec![b'\t'], vec![0x0c], vec![b' ', b' '], vec![b'a'], vec![0x0b, b' ']];
    product(ctx, &cls, &pats);
    ctx.exhaustive_part(&format!("inputs over 14 byte classes (all ASCII whitespace/control classes, 0x7f, 0x85, 0xa0) len<={hl} x 7 patterns"));
    // all 256 single bytes around a core, each side
    for b in 0..=255u8 {
        for core in [&b"x"[..], b"", b" x "] {
            let mut v = vec![b];
            v.extend_from_slice(core);
            v.push(b);
            eval(ctx, &v, &[b]);
        }
    }
    ctx.exhaustive_part("every byte value b as both edges of {\"x\",\"\",\" x \"}, pattern [b]");
    // one byte of every UTF-8 byte class (continuation, 2/3/4-byte lead, never-valid) as non-UTF-8 input and pattern
    product(ctx, &gen::seqs(&[b'a', 0x80, 0xbf, 0xc3], if q { 5 } else { 7 }), &gen::seqs(&[b'a', 0x80, 0xbf, 0xc3], 2));
    product(ctx, &gen::seqs(&[0xa9, 0xe0, 0xf0, 0xff], if q { 5 } else { 6 }), &gen::seqs(&[0xa9, 0xe0, 0xf0, 0xff], 2));
    ctx.exhaustive_part("inputs over {a,0x80,0xBF,0xC3} and {0xA9,0xE0,0xF0,0xFF} (every UTF-8 byte class) x patterns len<=2");
    // byte patterns that are not char-aligned in valid UTF-8 text: every byte prefix / suffix (1..=4 bytes) of the input
    for h in gen::strings(&gen::TEXT4, if q { 4 } else { 5 }) {
        let hb = h.as_bytes();
        for w in 1..=4usize.min(hb.len()) {
            eval(ctx, hb, &hb[..w]);
            eval(ctx, hb, &hb[hb.len() - w..]);
        }
    }
    ctx.exhaustive_part("UTF-8 inputs over {a,é,漢,😀} x their own byte prefixes / suffixes of 1..=4 bytes (char-aligned or not) as [u8] pattern");
    // chars whose encodings differ in exactly one byte position (first, middle or last), as haystack and as pattern
    for (set, strs) in gen::one_byte_partner_strings(if q { 3 } else { 4 }) {
        for h in &strs {
            for c in &set {
                let mut buf = [0u8; 4];
                eval(ctx, h.as_bytes(), c.encode_utf8(&mut buf).as_bytes());
            }
            // two-char patterns over the same set (self-overlap next to a partner char)
            for n in strs.iter().filter(|n| n.chars().count() == 2) {
                eval(ctx, h.as_bytes(), n.as_bytes());
            }
        }
    }
    ctx.exhaustive_part("one-byte partners: strings of <= 3-4 chars over {c, one partner per byte position of c's encoding, 'a'} for c in {é, 个, 😀} x every member and every 2-char string over the set as pattern (char, str and byte kinds)");
    // special chars: as text and as pattern (whole char, str and byte kinds), next to ASCII white space
    for s in gen::special_char_strings() {
        let hb = s.as_bytes();
        for c in s.chars() {
            let mut buf = [0u8; 4];
            eval(ctx, hb, c.encode_utf8(&mut buf).as_bytes());
        }
        eval(ctx, hb, b" ");
        eval(ctx, hb, b"a");
    }
    ctx.exhaustive_part("16 special chars (BOM, U+FFFD, Unicode white space / separators, zero-width ...) in 6 contexts x {each of its chars, ' ', 'a'} as pattern");
    // lead-byte sweep: the char itself (char and str kinds), its successor, its first byte and its tail bytes as patterns
    for s in gen::lead_byte_strings() {
        let hb = s.as_bytes();
        for c in s.chars() {
            let mut buf = [0u8; 4];
            let enc = c.encode_utf8(&mut buf).as_bytes().to_vec();
            eval(ctx, hb, &enc);
            eval(ctx, hb, &enc[..1]);
            if enc.len() > 1 {
                eval(ctx, hb, &enc[1..]);
            }
        }
    }
    ctx.exhaustive_part("lead-byte sweep: first / last scalar of each of the 51 UTF-8 lead bytes x 8 short contexts x {each of its chars, that char's lead byte, its continuation bytes} as pattern");
    let b = |v: Vec<String>| v.into_iter().map(String::into_bytes).collect::<Vec<_>>();
    let text = ["a", "é", "漢", " "];
    product(ctx, &b(gen::strings(&text, if q { 5 } else { 6 })), &b(gen::strings(&text, 3)));
    ctx.exhaustive_part("strings over {a,é,漢,' '} x str patterns <=3 chars (char kind when 1 char)");
    let share = ["é", "è", "😀", "😁"];
    product(ctx, &b(gen::strings(&share, if q { 4 } else { 6 })), &b(gen::strings(&share, 2)));
    ctx.exhaustive_part("strings over {é,è,😀,😁} (shared lead bytes) x patterns <=2 chars");
    if ctx.too_many() {
        return;
    }
    // long patterns (beyond the exhaustive bound): the input starts / ends with the pattern, or with the
    // pattern changed in exactly one position j, for every pattern length 1..=48 and every j
    let long: Vec<u8> = (0..48u8).map(|i| b"0123456789abcdefghijklmnopqrstuvwxyzABCDEFGHIJKL"[i as usize]).collect();
    for len in 1..=long.len() {
        let pat = &long[..len];
        for j in 0..=len {
            let mut body = pat.to_vec();
            if j < len {
                body[j] ^= 0x20; // j == len: unchanged (the pattern really is a prefix / suffix)
            }
            for tail in [&b""[..], b"-rest"] {
                let mut pre = body.clone();
                pre.extend_from_slice(tail);
                eval(ctx, &pre, pat);
                let mut suf = tail.to_vec();
                suf.extend_from_slice(&body);
                eval(ctx, &suf, pat);
            }
            // repeated pattern with the difference in the second repetition (trim_*_matches)
            let mut rep = pat.to_vec();
            rep.extend_from_slice(&body);
            rep.extend_from_slice(b"!");
            eval(ctx, &rep, pat);
            let mut rep = b"!".to_vec();
            rep.extend_from_slice(&body);
            rep.extend_from_slice(pat);
            eval(ctx, &rep, pat);
        }
    }
    ctx.exhaustive_part("long patterns: every prefix (length 1..=48) of a 48-byte pattern x a single changed byte at every position (or none), as prefix, as suffix and as second repetition");
    // long periodic patterns: pattern = a b^k (k up to 140); the input is pattern^2 followed / preceded by a proper
    // prefix / suffix of the pattern (a partial third repetition), and by pattern with its last byte changed
    {
        let ks: Vec<usize> = (0..=140usize).chain([200, 255, 256, 300]).collect();
        for &k in &ks {
            let mut pat = vec![b'a'];
            pat.extend(std::iter::repeat(b'b').take(k));
            for cut in [0usize, 1, k / 2 + 1, k] {
                let cut = cut.min(pat.len() - 1).max(0);
                let mut v = [pat.clone(), pat.clone()].concat();
                v.extend_from_slice(&pat[..cut]);
                v.extend_from_slice(b"#");
                v.extend_from_slice(&pat[pat.len() - cut..]);
                v.extend_from_slice(&pat);
                v.extend_from_slice(&pat);
                eval(ctx, &v, &pat);
            }
            let mut wrong = pat.clone();
            *wrong.last_mut().unwrap() ^= 1;
            let v = [pat.clone(), wrong.clone(), b"#".to_vec(), wrong, pat.clone()].concat();
            eval(ctx, &v, &pat);
        }
        ctx.exhaustive_part("long periodic patterns a b^k (k in 0..=140 and 4 larger): two repetitions plus a partial third on each side of a core, and a repetition with its last byte changed");
    }
    // inputs longer than 2^16: repeated pattern with the first foreign byte at offsets around 2^8, 2^15, 2^16
    {
        for pat in [&b"ab"[..], b"a", b" ", "\u{e9}".as_bytes()] {
            for keep in [0usize, 254, 256, 32_766, 32_768, 65_534, 65_536, 65_538, 69_998] {
                let keep = keep - keep % pat.len();
                // `keep` bytes of repeated pattern, a core, `keep` bytes of repeated pattern
                let mut v: Vec<u8> = pat.iter().copied().cycle().take(keep).collect();
                v.extend_from_slice(b"#core#");
                v.extend(pat.iter().copied().cycle().take(keep));
                eval_deep(ctx, &v, pat);
            }
        }
        ctx.exhaustive_part("inputs of up to 140000 bytes: a pattern repeated up to offsets around 2^8, 2^15, 2^16 on both sides of a core, 4 patterns");
    }
    let n = ctx.by_tier(150_000, 3_000_000);
    let strat = (2u8..=3).prop_flat_map(|k| {
        (
            proptest::collection::vec(0u8..k, 0..5),
            0usize..6,
            proptest::collection::vec(0u8..k, 0..12),
            0usize..6,
            0usize..5,
            0usize..5,
        )
    });
    ctx.prop("strip_trim", n, strat, |ctx, v| {
        let c = fold_case(v);
        ctx.label("random");
        classify(ctx, &c);
        run_case(&c)
    });
}

/// pattern^r1 ++ partial ++ middle ++ partial ++ pattern^r2
pub fn fold_case((p, r1, mid, r2, cut1, cut2): &(Vec<u8>, usize, Vec<u8>, usize, usize, usize)) -> Case {
    let m = |x: &u8| b"ab "[*x as usize];
    let pat: Vec<u8> = p.iter().map(m).collect();
    let mut input = Vec::new();
    for _ in 0..*r1 {
        input.extend_from_slice(&pat);
    }
    input.extend_from_slice(&pat[..(*cut1).min(pat.len())]);
    input.extend(mid.iter().map(m));
    let c2 = (*cut2).min(pat.len());
    input.extend_from_slice(&pat[pat.len() - c2..]);
    for _ in 0..*r2 {
        input.extend_from_slice(&pat);
    }
    Case { input, pat }
}

fn main() {
    kvh::on_thread(real_main);
}

fn real_main() {
    let args = kvh::parse_args("C05", "c05");
    let mut ctx = Ctx::new(args.clone(), RULE);
    if let Some(p) = &args.replay {
        let (_check, case) = kvh::load_replay(p);
        let c: Case = match serde_json::from_value::<Case>(case.clone()) {
            Ok(c) => c,
            Err(_) => fold_case(&serde_json::from_value(case).expect("replay case")),
        };
        println!("replaying input={} pattern={}", show(&c.input), show(&c.pat));
        ctx.case("strip_trim", &c, |_| run_case(&c));
    } else {
        explore(&mut ctx);
    }
    std::process::exit(ctx.finish());
}

// include!()d by the bins: a local trait abstracting konst's by-value iterators
// (`next(self) -> Option<(Item, Self)>`, `next_back`, `copy`) so histories can be interpreted generically.
pub trait KIter {
    type Item;
    /// one step from the front (`back == false`) or the back; the iterator is left
    /// unchanged when it reports exhaustion
    fn step(&mut self, back: bool) -> Option<Self::Item>;
}
#[allow(unused_macros)]
macro_rules! impl_kiter {
    ([$($gen:tt)*] $ty:ty, $item:ty) => {
        impl<$($gen)*> KIter for $ty {
            type Item = $item;
            fn step(&mut self, back: bool) -> Option<$item> {
                let c = self.copy();
                let r = if back { c.next_back() } else { c.next() };
                match r {
                    Some((x, n)) => {
                        *self = n;
                        Some(x)
                    }
                    None => None,
                }
            }
        }
    };
}

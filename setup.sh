#!/bin/bash
# Builds the verification framework from files on disk only (offline).
set -e
export CARGO_NET_OFFLINE=true
cd "$(dirname "$0")"
mkdir -p work replays evidence
(cd harness && cargo build --offline --bins 2>&1 | tail -3)
# the release build (no debug assertions / overflow checks) is the second configuration of every quick check
(cd harness && cargo build --offline --release --bins 2>&1 | tail -1)
# konst built with its `debug` feature (own target directory), used by the C01 and C03 quick checks
(cd harness && cargo build --offline --features konst_debug --target-dir target/feat-konst_debug --bin c01 --bin c03 2>&1 | tail -1)
echo "setup ok"

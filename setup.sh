#!/bin/bash
# Builds the verification framework from files on disk only (offline).
set -e
export CARGO_NET_OFFLINE=true
cd "$(dirname "$0")"
mkdir -p work replays evidence
(cd harness && cargo build --offline --bins 2>&1 | tail -3)
echo "setup ok"
